//go:build verif

// C03 — no network input can crash ingestion.
//
// Three monitors over the real code:
//  1. the lexer entry (VerifLexer.Run, exactly what DatagramParser.parseLine calls) under recover, on
//     structure-aware random lines with NUL bytes, mutated derivations and the `_e{n,m}` integer-boundary
//     family;
//  2. datagrams up to 65535 bytes through a real DatagramParser.Run goroutine (fed directly, or through a
//     real DatagramReceiver reading from a fake PacketConn), every batch followed by a sentinel line whose
//     metric must arrive; parser.* counters are read through a spy Statser and must account for every line;
//  3. the ingestion router built by web.NewHttpServer, driven through Router.ServeHTTP (and, for a subset,
//     a real httptest server) with valid / truncated / bit-flipped / hand-crafted protobuf, random bytes,
//     valid and corrupt zlib and lz4 streams, crossed with Content-Encoding values.
package c03

import (
	"bytes"
	"compress/zlib"
	"context"
	"encoding/hex"
	"encoding/json"
	"errors"
	"fmt"
	"io"
	"log"
	"math/rand"
	"net"
	"net/http"
	"net/http/httptest"
	"regexp"
	"runtime/debug"
	"strconv"
	"strings"
	"sync"
	"sync/atomic"
	"testing"
	"time"

	"github.com/pierrec/lz4/v4"
	"github.com/sirupsen/logrus"
	"google.golang.org/protobuf/encoding/protowire"
	"google.golang.org/protobuf/proto"

	"github.com/atlassian/gostatsd"
	"github.com/atlassian/gostatsd/pb"
	"github.com/atlassian/gostatsd/pkg/stats"
	"github.com/atlassian/gostatsd/pkg/statsd"
	"github.com/atlassian/gostatsd/pkg/web"

	"verif/gen"
	"verif/mon"
)

// watchdog is the generous bound after which a call that has not returned is treated as wedged (and
// reproduced once before anything is reported).
const watchdog = 120 * time.Second

// replayCase is the witness stored with a violation; every phase can re-run one of these.
type replayCase struct {
	Phase     string   `json:"phase"` // lexer | datagram | http
	Kind      string   `json:"kind"`
	Index     int      `json:"index"`
	Namespace string   `json:"namespace,omitempty"`
	Mode      string   `json:"mode,omitempty"`     // datagram: direct | receiver
	Hex       []string `json:"hex,omitempty"`      // lexer: the line; datagram: the datagrams of the batch; http: the body
	Preview   string   `json:"preview,omitempty"`  // first bytes, quoted, for humans
	Method    string   `json:"method,omitempty"`   // http
	Path      string   `json:"path,omitempty"`     // http
	Encoding  *string  `json:"encoding,omitempty"` // http: Content-Encoding, nil = header absent
}

func preview(b []byte) string {
	if len(b) > 160 {
		return strconv.Quote(string(b[:160])) + fmt.Sprintf("…(+%d bytes)", len(b)-160)
	}
	return strconv.Quote(string(b))
}

// guard runs f and converts a panic on this goroutine into a violation; the replay payload is only built
// when needed.
func guard(r *mon.Run, sigPrefix string, mk func() interface{}, f func()) (panicked bool) {
	defer func() {
		if p := recover(); p != nil {
			panicked = true
			stack := string(debug.Stack())
			short := stack
			if len(short) > 3000 {
				short = short[:3000]
			}
			r.Violation(sigPrefix+":"+mon.PanicSite(stack), fmt.Sprintf("panic: %v\n%s", p, short), mk())
		}
	}()
	f()
	return false
}

// watched runs body on its own goroutine. body must call tick(c) before every case. If no case completes
// within the watchdog, the current case is run once more on a fresh goroutine through again(); if that does
// not return either, the non-termination is a violation (bounded progress is what C03 promises), otherwise the
// expiry is counted as inconclusive. Returns false when the phase had to be abandoned.
func watched(r *mon.Run, phase string, body func(tick func(c *replayCase)), again func(c *replayCase)) bool {
	var progress atomic.Int64
	var cur atomic.Pointer[replayCase]
	done := make(chan struct{})
	go func() {
		defer close(done)
		body(func(c *replayCase) { cur.Store(c); progress.Add(1) })
	}()
	last := int64(-1)
	for {
		t := time.NewTimer(watchdog)
		select {
		case <-done:
			t.Stop()
			return true
		case <-t.C:
		}
		p := progress.Load()
		if p != last {
			last = p
			continue
		}
		c := cur.Load()
		if c == nil {
			r.Inconclusive(phase + "-watchdog-before-first-case")
			return false
		}
		redo := make(chan struct{})
		go func() { defer close(redo); again(c) }()
		t2 := time.NewTimer(watchdog)
		select {
		case <-redo:
			t2.Stop()
			r.Inconclusive(phase + "-watchdog-not-reproduced")
		case <-t2.C:
			r.Violation(phase+"-wedged", fmt.Sprintf("%s case %d (%s) did not return within %v, twice: %s", phase, c.Index, c.Kind, watchdog, c.Preview), c)
		}
		return false
	}
}

// ---------------------------------------------------------------------------------------------
// phase 1: lexer entry

var namespaces = []string{"", "", "ns", "a.b"}

// errClass reduces an error text to its kind (strconv errors quote the offending input).
func errClass(err error) string {
	msg := err.Error()
	if i := strings.Index(msg, "\""); i >= 0 {
		j := strings.LastIndex(msg, "\"")
		if j > i {
			msg = msg[:i] + msg[j+1:]
		}
	}
	if len(msg) > 60 {
		msg = msg[:60]
	}
	return msg
}

type lexChecker struct {
	r  *mon.Run
	lx *statsd.VerifLexer
}

// run lexes a copy of line. It returns the outcome class ("metric:<type>", "event", "err:<class>", "panic").
func (c *lexChecker) run(kind string, idx int, line []byte, ns string) string {
	buf := append(make([]byte, 0, len(line)), line...)
	var (
		m   *gostatsd.Metric
		e   *gostatsd.Event
		err error
	)
	mk := func() interface{} {
		return &replayCase{Phase: "lexer", Kind: kind, Index: idx, Namespace: ns, Hex: []string{hex.EncodeToString(line)}, Preview: preview(line)}
	}
	if guard(c.r, "lexer-panic", mk, func() { m, e, err = c.lx.Run(buf, ns) }) {
		return "panic"
	}
	switch {
	case err != nil:
		return "err:" + errClass(err)
	case (m == nil) == (e == nil):
		// handleDatagram would call logger.Panic("Both event and metric are nil") or mis-handle the line
		c.r.Violation("lexer-accepted-without-single-result", fmt.Sprintf("line %s: err=nil metric=%v event=%v", preview(line), m, e), mk())
		return "bad-result"
	case m != nil:
		out := "metric:" + m.Type.String()
		m.Done()
		return out
	default:
		return "event"
	}
}

// boundaryNumbers lists decimal strings around the integer widths that matter to `_e{n,m}` and `d:`;
// lens are lengths of the actual body parts, to which some of the numbers are made relative.
func boundaryNumbers(lens ...int) []string {
	out := []string{
		"", "0", "1", "2", "00", "01", "-1", "+1", " 1", "1e1", "0x1",
		"18446744073709551616", "18446744073709551617", "18446744073709551626", "36893488147419103232", // 2^64, +1, +10, 2^65
		"99999999999999999999", "123456789012345678901234567890", "000000000000000000000000000001", "0000000000000000000000000000000000000000",
		"23058430092136939520", // 10*2^61: the multiply wraps to 2^62, which is not below the previous value
		"46116860184273879040", "184467440737095516160", "42949672960", "4294967296000000000",
	}
	u := func(v uint64) { out = append(out, strconv.FormatUint(v, 10)) }
	for _, p := range []uint64{1 << 31, 1 << 32, 1 << 63} {
		for k := uint64(0); k <= 3; k++ {
			u(p - k)
			u(p + k)
		}
	}
	for k := uint64(0); k <= 16; k++ {
		u(1<<32 - k)
		u(^uint64(0) - k)
	}
	u(1<<16 - 1)
	u(1 << 16)
	for _, l := range lens {
		for d := -2; d <= 2; d++ {
			if l+d >= 0 {
				u(uint64(l + d))
			}
			u(uint64(int64(1<<32) + int64(l+d)))
			u(uint64(int64(1<<32) - int64(l+d)))
			u(^uint64(0) - uint64(l+2) + uint64(d+2))
		}
	}
	return out
}

// wrapHeader builds `_e{n,m}` headers whose lengths only add up to something plausible after wrapping a
// 32-bit sum: n + 1 + m == 2^32 + j for a small j.
func wrapHeader(rng *rand.Rand, titleLen, avail int) (string, string) {
	j := uint64(rng.Intn(avail + 3))
	if rng.Intn(2) == 0 {
		n := uint64(titleLen)
		if rng.Intn(3) == 0 {
			n = uint64(rng.Intn(avail + 2))
		}
		m := uint64(1<<32) - n - 1 + j
		return strconv.FormatUint(n, 10), strconv.FormatUint(m, 10)
	}
	m := uint64(rng.Intn(avail + 2))
	n := uint64(1<<32) - m - 1 + j
	return strconv.FormatUint(n, 10), strconv.FormatUint(m, 10)
}

var eventSuffixes = []string{"", "", "|", "|d:1", "|#t,u", "|h:x|p:low", "|d:18446744073709551615", "|d:23058430092136939520", "|t:error|k:", "x"}

// randomEventHeaderLine returns an event line whose declared lengths come from the boundary family and whose
// body is shorter than, equal to, or longer than declared.
func randomEventHeaderLine(rng *rand.Rand) []byte {
	title := strings.Repeat("t", rng.Intn(9))
	text := strings.Repeat("x", rng.Intn(9))
	if rng.Intn(20) == 0 {
		title = strings.Repeat("T", 200+rng.Intn(400))
	}
	if rng.Intn(20) == 0 {
		text = strings.Repeat("X", 200+rng.Intn(400))
	}
	body := title + "|" + text + eventSuffixes[rng.Intn(len(eventSuffixes))]
	var n, m string
	switch rng.Intn(4) {
	case 0:
		n, m = wrapHeader(rng, len(title), len(body))
	case 1:
		nums := boundaryNumbers(len(title), len(text), len(body))
		n, m = nums[rng.Intn(len(nums))], nums[rng.Intn(len(nums))]
	case 2:
		nums := boundaryNumbers(len(title), len(text))
		n, m = strconv.Itoa(len(title)), nums[rng.Intn(len(nums))]
	default:
		nums := boundaryNumbers(len(title), len(text))
		n, m = nums[rng.Intn(len(nums))], strconv.Itoa(len(text))
	}
	open, sep, cl := "{", ",", "}:"
	if rng.Intn(40) == 0 {
		open = []string{"", "{{", "["}[rng.Intn(3)]
	}
	if rng.Intn(40) == 0 {
		sep = []string{"", ",,", ";", "}"}[rng.Intn(4)]
	}
	if rng.Intn(40) == 0 {
		cl = []string{"", "}", ":", "}}:"}[rng.Intn(4)]
	}
	return []byte("_e" + open + n + sep + m + cl + body)
}

// withOddBytes replaces / inserts a few bytes, NUL among them (never a newline: the parser splits on those
// before the lexer sees a line).
func withOddBytes(rng *rand.Rand, line []byte) []byte {
	out := append([]byte(nil), line...)
	k := 1 + rng.Intn(3)
	for i := 0; i < k; i++ {
		b := byte(0)
		if rng.Intn(3) == 0 {
			b = byte(rng.Intn(256))
			if b == '\n' {
				b = 0
			}
		}
		if len(out) == 0 || rng.Intn(2) == 0 {
			p := rng.Intn(len(out) + 1)
			out = append(out[:p], append([]byte{b}, out[p:]...)...)
		} else {
			out[rng.Intn(len(out))] = b
		}
	}
	return out
}

// mutate applies one structural single-point mutation.
func mutate(rng *rand.Rand, line []byte) []byte {
	if len(line) == 0 {
		return line
	}
	structural := []int{}
	for i, b := range line {
		switch b {
		case ':', '|', '@', '#', ',', '{', '}', '_':
			structural = append(structural, i)
		}
	}
	i := rng.Intn(len(line))
	if len(structural) > 0 && rng.Intn(4) != 0 {
		i = structural[rng.Intn(len(structural))]
	}
	out := append([]byte(nil), line...)
	switch rng.Intn(5) {
	case 0:
		out = append(out[:i], out[i+1:]...)
	case 1:
		out = append(out[:i+1], append([]byte{line[i]}, out[i+1:]...)...)
	case 2:
		out[i] = []byte{':', '|', '@', '#', ',', 'x', '0', ' ', '.', '-', 'e', 's', 'm', '_', '{', 0xff, 0, '9'}[rng.Intn(18)]
	case 3:
		out = out[:i]
	default:
		// digit run replaced by a boundary number
		nums := boundaryNumbers(len(line))
		out = append(out[:i+1], append([]byte(nums[rng.Intn(len(nums))]), out[i+1:]...)...)
	}
	for j := range out {
		if out[j] == '\n' {
			out[j] = 0
		}
	}
	return out
}

func randomLexLine(rng *rand.Rand, i int) (string, []byte) {
	switch i % 5 {
	case 0:
		return "random-nul", gen.RandomLine(rng, true)
	case 1:
		var l []byte
		if rng.Intn(3) == 0 {
			l = []byte(gen.Event(rng, gen.LineOpts{}).Line)
		} else {
			l = []byte(gen.Metric(rng, gen.LineOpts{}).Line)
		}
		l = mutate(rng, l)
		if rng.Intn(2) == 0 {
			l = withOddBytes(rng, l)
		}
		return "mutation", l
	case 2:
		return "event-header", randomEventHeaderLine(rng)
	case 3:
		l := mutate(rng, []byte(gen.Event(rng, gen.LineOpts{}).Line))
		if rng.Intn(3) == 0 {
			l = withOddBytes(rng, l)
		}
		return "event-mutation", l
	default:
		l := randomEventHeaderLine(rng)
		return "event-header-odd", withOddBytes(rng, l)
	}
}

func phaseLexer(r *mon.Run, upTo int) {
	c := &lexChecker{r: r, lx: statsd.VerifNewLexer(0)}
	rng := r.Rand("lexer")
	nRandom := r.N(130000, 14000000)
	if upTo >= 0 {
		nRandom = upTo + 1
	}
	body := func(tick func(*replayCase)) {
		// (a) systematic enumeration of the `_e{n,m}` boundary family × bodies shorter / equal / longer than declared
		if upTo < 0 {
			idx := 0
			for _, title := range []string{"", "a", "abcde"} {
				for _, text := range []string{"", "b", "xyz"} {
					nums := boundaryNumbers(len(title), len(text))
					for _, suffix := range []string{"", "|d:1", "|#t,u"} {
						for _, n := range nums {
							for _, m := range nums {
								idx++
								if !r.Mine(idx) {
									continue
								}
								line := []byte("_e{" + n + "," + m + "}:" + title + "|" + text + suffix)
								tick(&replayCase{Phase: "lexer", Kind: "event-boundary", Index: idx, Hex: []string{hex.EncodeToString(line)}, Preview: preview(line)})
								out := c.run("event-boundary", idx, line, "")
								r.Eval(1)
								r.Nontrivial("event-boundary|" + out)
							}
						}
					}
				}
			}
			r.Event("lexer_event_boundary_enumerated", idx)
			if s, _ := r.Shard(); s == 0 {
				for i, n := range boundaryNumbers(1, 5) {
					for _, tmpl := range []string{"_e{1,1}:a|b|d:%s", "_e{1,1}:a|b|d:%s|#t", "x:%s|c", "x:1|c|@%s", "x:1|ms|@0.%s"} {
						line := []byte(fmt.Sprintf(tmpl, n))
						out := c.run("number-boundary", i, line, "")
						r.Eval(1)
						r.Nontrivial("number-boundary|" + out)
					}
				}
			}
		}
		// (b) random families
		for i := 0; i < nRandom; i++ {
			kind, line := randomLexLine(rng, i)
			ns := namespaces[rng.Intn(len(namespaces))]
			if upTo >= 0 && i != upTo {
				continue
			}
			r.Case("phase=lexer idx=%d kind=%s ns=%q hex=%x", i, kind, ns, line)
			tick(&replayCase{Phase: "lexer", Kind: kind, Index: i, Namespace: ns, Hex: []string{hex.EncodeToString(line)}, Preview: preview(line)})
			out := c.run(kind, i, line, ns)
			r.Eval(1)
			r.Event("lexer_"+strings.SplitN(out, ":", 2)[0], 1)
			r.Nontrivial(kind + "|" + out)
			if i%1000 == 7 && strings.HasPrefix(kind, "event-header") && r.WantSample() {
				r.Sample(map[string]interface{}{"phase": "lexer", "kind": kind, "line": preview(line), "outcome": out})
			}
		}
	}
	again := func(cs *replayCase) {
		if len(cs.Hex) == 1 {
			line, _ := hex.DecodeString(cs.Hex[0])
			(&lexChecker{r: r, lx: statsd.VerifNewLexer(0)}).run(cs.Kind, cs.Index, line, cs.Namespace)
		}
	}
	watched(r, "lexer", body, again)
}

// ---------------------------------------------------------------------------------------------
// phase 2: datagrams through a real DatagramParser.Run goroutine

// spyStatser is a stats.Statser that remembers the last value reported per name. Report is read without
// resetting (the non-forwarder semantics of the internal statser), so values are cumulative.
type spyStatser struct {
	stats.NullStatser
	mu      sync.Mutex
	flushes int64
	vals    map[string]float64
}

func (s *spyStatser) Report(name string, value *uint64, tags gostatsd.Tags) {
	v := atomic.LoadUint64(value)
	s.mu.Lock()
	s.vals[name] = float64(v)
	if name == "parser.metrics_received" {
		s.flushes++ // first call of every RunMetricsContext round
	}
	s.mu.Unlock()
}

func (s *spyStatser) Gauge(name string, value float64, tags gostatsd.Tags) {
	s.mu.Lock()
	s.vals[name] = value
	s.mu.Unlock()
}

func (s *spyStatser) WithTags(tags gostatsd.Tags) stats.Statser { return s }

func (s *spyStatser) rounds() int64 {
	s.mu.Lock()
	defer s.mu.Unlock()
	return s.flushes
}

type parserCounters struct{ metrics, events, bad uint64 }

// capHandler is the PipelineHandler at the end of the parser.
type capHandler struct {
	mu        sync.Mutex
	maps      int
	events    int
	sentinels map[string]int64 // counter name -> summed value, for names containing "verif.sentinel"
}

func (h *capHandler) EstimatedTags() int { return 0 }
func (h *capHandler) WaitForEvents()     {}
func (h *capHandler) DispatchEvent(ctx context.Context, e *gostatsd.Event) {
	// touch every field as a consumer would
	n := len(e.Title) + len(e.Text) + len(e.AggregationKey) + len(e.SourceTypeName) + len(e.Source)
	for _, t := range e.Tags {
		n += len(t)
	}
	h.mu.Lock()
	h.events++
	h.mu.Unlock()
	_ = n
}
func (h *capHandler) DispatchMetricMap(ctx context.Context, mm *gostatsd.MetricMap) {
	type kv struct {
		k string
		v int64
	}
	var found []kv
	n := 0
	mm.Counters.Each(func(name, tk string, c gostatsd.Counter) {
		n += len(tk) + len(c.Tags)
		if strings.Contains(name, "verif.sentinel") {
			found = append(found, kv{name, c.Value})
		}
	})
	mm.Timers.Each(func(name, tk string, t gostatsd.Timer) { n += len(t.Values) + len(t.Tags) })
	mm.Gauges.Each(func(name, tk string, g gostatsd.Gauge) { n += len(g.Tags) })
	mm.Sets.Each(func(name, tk string, s gostatsd.Set) { n += len(s.Values) })
	h.mu.Lock()
	h.maps++
	for _, f := range found {
		h.sentinels[f.k] += f.v
	}
	h.mu.Unlock()
}
func (h *capHandler) snapshot() (maps, events int) {
	h.mu.Lock()
	defer h.mu.Unlock()
	return h.maps, h.events
}
func (h *capHandler) takeSentinel(suffix string) int64 {
	h.mu.Lock()
	defer h.mu.Unlock()
	for k, v := range h.sentinels {
		if strings.HasSuffix(k, suffix) {
			delete(h.sentinels, k)
			return v
		}
	}
	return 0
}

var fakeAddr = &net.UDPAddr{IP: net.IPv4(10, 1, 2, 3), Port: 8125}

// fakeConn is the PacketConn the real DatagramReceiver reads from.
type fakeConn struct {
	ch     chan []byte
	closed chan struct{}
	once   sync.Once
}

func (c *fakeConn) ReadFrom(b []byte) (int, net.Addr, error) {
	select {
	case d := <-c.ch:
		return copy(b, d), fakeAddr, nil
	case <-c.closed:
		return 0, nil, errors.New("use of closed network connection")
	}
}
func (c *fakeConn) WriteTo(b []byte, addr net.Addr) (int, error) { return len(b), nil }
func (c *fakeConn) Close() error                                 { c.once.Do(func() { close(c.closed) }); return nil }
func (c *fakeConn) LocalAddr() net.Addr                          { return fakeAddr }
func (c *fakeConn) SetDeadline(t time.Time) error                { return nil }
func (c *fakeConn) SetReadDeadline(t time.Time) error            { return nil }
func (c *fakeConn) SetWriteDeadline(t time.Time) error           { return nil }

// rig is one running parser (optionally behind a real receiver) with its observers.
type rig struct {
	mode   string
	ns     string
	in     chan []*statsd.Datagram // direct mode
	conn   *fakeConn               // receiver mode
	h      *capHandler
	spy    *spyStatser
	ctx    context.Context
	cancel context.CancelFunc
	last   parserCounters
	seq    int
}

func quietLogger() *logrus.Logger {
	l := logrus.New()
	l.SetOutput(io.Discard)
	return l
}

func newRig(mode, ns string, ignoreHost bool, estimatedTags int) *rig {
	g := &rig{mode: mode, ns: ns, h: &capHandler{sentinels: map[string]int64{}}, spy: &spyStatser{vals: map[string]float64{}}}
	ctx, cancel := context.WithCancel(context.Background())
	g.ctx = stats.NewContext(ctx, g.spy)
	g.cancel = cancel
	ch := make(chan []*statsd.Datagram) // unbuffered: a completed send means the previous batch is finished
	dp := statsd.NewDatagramParser(ch, ns, ignoreHost, estimatedTags, g.h, 0, false, quietLogger())
	if mode == "receiver" {
		g.conn = &fakeConn{ch: make(chan []byte), closed: make(chan struct{})}
		recv := statsd.NewDatagramReceiver(ch, func() (net.PacketConn, error) { return g.conn, nil }, 1, 1)
		go recv.Run(g.ctx)
	} else {
		g.in = ch
	}
	go dp.Run(g.ctx)
	go dp.RunMetricsContext(g.ctx)
	return g
}

func (g *rig) stop() { g.cancel() }

// send hands one batch to the parser; false when the watchdog fired.
func (g *rig) send(batch [][]byte) bool {
	t := time.NewTimer(watchdog)
	defer t.Stop()
	if g.mode == "receiver" {
		for _, d := range batch {
			select {
			case g.conn.ch <- d:
			case <-t.C:
				return false
			}
		}
		return true
	}
	dgs := make([]*statsd.Datagram, len(batch))
	for i, d := range batch {
		buf := append(make([]byte, 0, len(d)), d...)
		dgs[i] = &statsd.Datagram{IP: "10.1.2.3", Msg: buf, Timestamp: gostatsd.Nanotime(1000 + g.seq), DoneFunc: func() {
			// the buffer goes back to a pool in the real receiver: scribble over it
			for j := range buf {
				buf[j] = 0xAA
			}
		}}
	}
	select {
	case g.in <- dgs:
		return true
	case <-t.C:
		return false
	}
}

// fence returns once everything sent before it has been completely processed (counters included): the
// channels are unbuffered and each stage takes its next input only after finishing the previous one. Empty
// datagrams / an empty batch leave no trace in any counter.
func (g *rig) fence() bool {
	if g.mode == "receiver" {
		return g.send([][]byte{{}, {}})
	}
	t := time.NewTimer(watchdog)
	defer t.Stop()
	select {
	case g.in <- nil:
		return true
	case <-t.C:
		return false
	}
}

// counters reads parser.* through the spy statser: a flush round that started after the call is complete
// once the next one has started.
func (g *rig) counters() (parserCounters, bool) {
	s0 := g.spy.rounds()
	ok := mon.WaitUntil(watchdog, func() bool {
		g.spy.NotifyFlush(g.ctx, 0)
		return g.spy.rounds() >= s0+2
	})
	g.spy.mu.Lock()
	defer g.spy.mu.Unlock()
	return parserCounters{uint64(g.spy.vals["parser.metrics_received"]), uint64(g.spy.vals["parser.events_received"]), uint64(g.spy.vals["parser.bad_lines_seen"])}, ok
}

// splitLines is the harness' own statement of what the lines of a datagram are: newline separated segments,
// where a final segment that is empty does not exist.
func splitLines(d []byte) [][]byte {
	if len(d) == 0 {
		return nil
	}
	segs := bytes.Split(d, []byte{'\n'})
	if len(segs[len(segs)-1]) == 0 {
		segs = segs[:len(segs)-1]
	}
	return segs
}

var junkBytes = []byte("!@#$%^&*()=+[]{};'\"<>?~`\\\x01\x7f\xff\xc3")

func fill(n int, f func(i int) byte) []byte {
	b := make([]byte, n)
	for i := range b {
		b[i] = f(i)
	}
	return b
}

// longLine returns one line with a very long component; total length up to 65535.
func longLine(rng *rand.Rand) (string, []byte) {
	n := []int{65535, 65534, 65000, 40000, 10000 + rng.Intn(50000), 3000 + rng.Intn(5000)}[rng.Intn(6)]
	pad := func(b []byte, filler byte) []byte {
		for len(b) < n {
			b = append(b, filler)
		}
		if len(b) > 65535 {
			b = b[:65535]
		}
		return b
	}
	switch rng.Intn(14) {
	case 0:
		return "long-good-name", append(fill(n-5, func(i int) byte { return "abcXYZ019._-"[i%12] }), ":1|c|"...)[:n]
	case 1:
		m := n
		if m > 30000 {
			m = 30000 // every junk byte is deleted by shifting the rest of the line: quadratic
		}
		return "long-junk-name", append(fill(m-4, func(i int) byte { return junkBytes[rng.Intn(len(junkBytes))] }), "z:1|c"...)
	case 2:
		return "long-normalised-name", append(fill(n-5, func(i int) byte { return "a /\tb"[i%5] }), ":1|ms"...)
	case 3:
		return "long-value", append(append([]byte("x:"), fill(n-5, func(i int) byte { return byte('0' + i%10) })...), "|g"...)
	case 4:
		return "long-tag", pad([]byte("x:1|c|#k:"), 'v')
	case 5:
		b := []byte("x:1|c|#")
		for len(b) < n-4 {
			b = append(b, "t:1,"...)
		}
		return "many-tags", b
	case 6:
		return "long-set-member", append(append([]byte("x:"), fill(n-4, func(i int) byte { return byte(0x20 + i%0x5f) })...), "|s"...)
	case 7:
		t := n - 20
		return "long-event-title", []byte(fmt.Sprintf("_e{%d,3}:%s|abc", t, strings.Repeat("T", t)))
	case 8:
		k := (n - 20) / 3
		txt := strings.Repeat("a\\n", k)
		return "long-event-text-escapes", []byte(fmt.Sprintf("_e{1,%d}:t|%s|#x", len(txt), txt))
	case 9:
		return "event-declares-more", pad([]byte(fmt.Sprintf("_e{%d,%d}:", 65535, 65535)), 'q')
	case 10:
		return "no-separator", fill(n, func(i int) byte { return "abcdefghij"[i%10] })
	case 11:
		return "many-empty-sections", pad([]byte("x:1|c"), '|')
	case 12:
		return "many-unknown-sections", pad([]byte("x:1|c|#a"), "|z"[rng.Intn(2)])
	default:
		return "long-event-attrs", pad([]byte("_e{1,1}:a|b|#"), ",|h:k"[rng.Intn(5)])
	}
}

func mixLine(rng *rand.Rand) []byte {
	switch k := rng.Intn(20); {
	case k < 5:
		return []byte(gen.Metric(rng, gen.LineOpts{}).Line)
	case k < 7:
		return []byte(gen.Event(rng, gen.LineOpts{}).Line)
	case k < 10:
		return mutate(rng, []byte(gen.Metric(rng, gen.LineOpts{}).Line))
	case k < 12:
		return mutate(rng, []byte(gen.Event(rng, gen.LineOpts{}).Line))
	case k < 14:
		return gen.RandomLine(rng, true)
	case k < 16:
		return nil
	case k < 18:
		return randomEventHeaderLine(rng)
	case k < 19:
		return withOddBytes(rng, []byte(gen.Metric(rng, gen.LineOpts{}).Line))
	default:
		return []byte([]string{"x", "x:", "x:1", "x:1|", "x:1|q", ":1|c", "x:nan|g", "x:1|c|@0", "_e{5,3}:ab|c", "_", "_e", "\x00", "_e{5,4294967290}:abcde|xyz"}[rng.Intn(13)])
	}
}

// genDatagram returns (kind, datagram). Lines never contain '\n' themselves.
func genDatagram(rng *rand.Rand) (string, []byte) {
	switch k := rng.Intn(20); {
	case k < 9:
		n := 1 + rng.Intn(40)
		var b []byte
		for i := 0; i < n; i++ {
			if i > 0 {
				b = append(b, '\n')
			}
			b = append(b, bytes.ReplaceAll(mixLine(rng), []byte{'\n'}, []byte{0})...)
		}
		if rng.Intn(2) == 0 {
			b = append(b, '\n')
		}
		return "mix", b
	case k < 12:
		n := []int{0, 1, 2, rng.Intn(200), rng.Intn(3000), rng.Intn(65536), 65535, 65534}[rng.Intn(8)]
		alphabet := []byte("abc019.-_/ :|@#,{}e\n\n\x00_")
		return "random-bytes", fill(n, func(i int) byte {
			if rng.Intn(8) == 0 {
				return byte(rng.Intn(256))
			}
			return alphabet[rng.Intn(len(alphabet))]
		})
	case k < 16:
		kind, l := longLine(rng)
		l = bytes.ReplaceAll(l, []byte{'\n'}, []byte{'.'})
		switch rng.Intn(4) {
		case 0:
			if len(l) < 65535 {
				l = append(l, '\n')
			}
		case 1:
			// neighbours before and after, inside the size limit
			pre, post := []byte("before:1|c\n"), []byte("\nafter:2|g")
			if len(l)+len(pre)+len(post) <= 65535 {
				l = append(append(pre, l...), post...)
			}
		}
		return kind, l
	default:
		unit := [][]byte{[]byte("a:1|c\n"), []byte("\n"), []byte("g:1|g|#t:v\n"), []byte("_e{1,1}:a|b\n"), []byte("bad\n"), []byte("\x00\n"), []byte("s:m|s|@0.5\nq\n")}[rng.Intn(7)]
		n := []int{65535, 65535, 65534, 20000 + rng.Intn(40000)}[rng.Intn(4)]
		b := bytes.Repeat(unit, n/len(unit)+1)[:n]
		return "many-lines", b
	}
}

type dgramChecker struct {
	r       *mon.Run
	lx      *statsd.VerifLexer
	rigs    map[string]*rig
	scratch []byte
}

func (c *dgramChecker) rig(mode, ns string) *rig {
	k := mode + "/" + ns
	if g, ok := c.rigs[k]; ok {
		return g
	}
	g := newRig(mode, ns, false, len(ns))
	c.rigs[k] = g
	return g
}

func (c *dgramChecker) replace(mode, ns string) {
	k := mode + "/" + ns
	if g, ok := c.rigs[k]; ok {
		g.stop()
		delete(c.rigs, k)
	}
}

func hexAll(batch [][]byte) []string {
	out := make([]string, len(batch))
	for i, d := range batch {
		out[i] = hex.EncodeToString(d)
	}
	return out
}

// runBatch pushes one batch followed by a sentinel through the rig and applies the oracles.
func (c *dgramChecker) runBatch(idx int, kind, mode, ns string, batch [][]byte) (abort bool) {
	r := c.r
	mk := func() interface{} {
		return &replayCase{Phase: "datagram", Kind: kind, Index: idx, Namespace: ns, Mode: mode, Hex: hexAll(batch), Preview: preview(batch[0])}
	}
	// Every line first goes through the lexer entry under recover: a lexer panic is reported with its input
	// instead of killing this process, and the number of lines the lexer rejects is what the bad-line counter
	// has to grow by.
	nLines, rejected := 0, 0
	var cur []byte
	panicked := guard(r, "lexer-panic", func() interface{} {
		return &replayCase{Phase: "lexer", Kind: "datagram-line:" + kind, Index: idx, Namespace: ns, Hex: []string{hex.EncodeToString(cur)}, Preview: preview(cur)}
	}, func() {
		for _, d := range batch {
			for _, line := range splitLines(d) {
				nLines++
				cur = line
				c.scratch = append(c.scratch[:0], line...) // the lexer edits names in place; everything it returns is a copy
				m, _, err := c.lx.Run(c.scratch, ns)
				if err != nil {
					rejected++
				}
				if m != nil {
					m.Done()
				}
			}
		}
	})
	if panicked {
		r.Event("datagram_not_sent_after_lexer_panic", 1)
		r.Eval(1)
		return false
	}
	g := c.rig(mode, ns)
	g.seq++
	sentinel := fmt.Sprintf("verif.sentinel.n%d", g.seq)
	mapsBefore, eventsBefore := g.h.snapshot()
	ok := g.send(batch) && g.send([][]byte{[]byte(sentinel + ":7|c")}) && g.fence()
	if !ok {
		// reproduce once on a fresh parser before calling it a wedge
		c.replace(mode, ns)
		g2 := newRig(mode, ns, false, len(ns))
		defer g2.stop()
		g2.seq = 1
		if g2.send(batch) && g2.send([][]byte{[]byte("verif.sentinel.n1:7|c")}) && g2.fence() {
			r.Inconclusive("datagram-watchdog-not-reproduced")
		} else {
			r.Violation("parser-wedged", fmt.Sprintf("batch %d (%s, %s mode) was not consumed within %v, twice: %s", idx, kind, mode, watchdog, preview(batch[0])), mk())
			return true // every further wedge costs minutes; the witness is recorded
		}
		return false
	}
	r.Eval(1)
	r.Event("datagrams", len(batch))
	r.Event("datagram_lines", nLines)
	if v := g.h.takeSentinel(sentinel); v != 7 {
		r.Violation("sentinel-not-processed", fmt.Sprintf("the valid line %q sent after batch %d (%s) produced counter value %d, want 7", sentinel+":7|c", idx, kind, v), mk())
	}
	mapsAfter, eventsAfter := g.h.snapshot()
	now, ok := g.counters()
	if !ok {
		r.Inconclusive("parser-counters-not-reported")
		c.replace(mode, ns)
		return false
	}
	dm, de, db := now.metrics-g.last.metrics, now.events-g.last.events, now.bad-g.last.bad
	g.last = now
	if dm+de+db != uint64(nLines)+1 {
		r.Violation("lines-unaccounted", fmt.Sprintf("batch %d (%s): %d lines + sentinel, but metrics_received+%d events_received+%d bad_lines_seen+%d", idx, kind, nLines, dm, de, db), mk())
	} else if db != uint64(rejected) {
		r.Violation("bad-lines-count", fmt.Sprintf("batch %d (%s): parser.bad_lines_seen grew by %d, the lexer rejects %d of the %d lines", idx, kind, db, rejected, nLines), mk())
	}
	if de != uint64(eventsAfter-eventsBefore) {
		r.Violation("events-count", fmt.Sprintf("batch %d (%s): parser.events_received grew by %d, handler saw %d events", idx, kind, de, eventsAfter-eventsBefore), mk())
	}
	if dm > 1 && mapsAfter-mapsBefore < 2 {
		r.Violation("metrics-not-dispatched", fmt.Sprintf("batch %d (%s): %d metrics received but %d maps dispatched (batch + sentinel)", idx, kind, dm-1, mapsAfter-mapsBefore), mk())
	}
	// non-trivial: something other than "all lines accepted"; distinct by what the batch exercised
	size := "small"
	for _, d := range batch {
		if len(d) >= 60000 {
			size = "max"
		} else if len(d) >= 1500 && size == "small" {
			size = "big"
		}
	}
	cls := fmt.Sprintf("datagram|%s|%s|%s|m%v|e%v|b%v|n%d", kind, mode, size, dm > 1, de > 0, db > 0, len(batch))
	if db > 0 || de > 0 || size != "small" {
		r.Nontrivial(cls)
	}
	if r.WantSample() && db > 0 && dm > 1 && idx%7 == 3 {
		r.Sample(map[string]interface{}{"phase": "datagram", "kind": kind, "mode": mode, "namespace": ns, "bytes": len(batch[0]), "lines": nLines,
			"metrics": dm - 1, "events": de, "bad_lines": db, "datagram": preview(batch[0])})
	}
	return false
}

func phaseDatagrams(r *mon.Run, upTo int) {
	c := &dgramChecker{r: r, lx: statsd.VerifNewLexer(0), rigs: map[string]*rig{}}
	defer func() {
		for _, g := range c.rigs {
			g.stop()
		}
	}()
	rng := r.Rand("datagrams")
	n := r.N(2000, 60000)
	if upTo >= 0 {
		n = upTo + 1
	}
	for i := 0; i < n; i++ {
		kind, d := genDatagram(rng)
		batch := [][]byte{d}
		mode := "direct"
		if rng.Intn(3) == 0 {
			mode = "receiver"
		} else if rng.Intn(6) == 0 {
			for k := rng.Intn(3); k >= 0; k-- {
				_, d2 := genDatagram(rng)
				if len(d2) > 4000 {
					d2 = d2[:4000]
				}
				batch = append(batch, d2)
			}
		}
		ns := namespaces[rng.Intn(len(namespaces))]
		if upTo >= 0 && i != upTo {
			continue
		}
		total := 0
		for _, d := range batch {
			total += len(d)
		}
		if total <= 30000 {
			r.Case("phase=datagram idx=%d kind=%s mode=%s ns=%q hex=%s", i, kind, mode, ns, strings.Join(hexAll(batch), ","))
		} else {
			r.Case("phase=datagram idx=%d kind=%s mode=%s ns=%q bytes=%d (re-run this seed and shard up to idx) head=%x", i, kind, mode, ns, total, batch[0][:200])
		}
		if c.runBatch(i, kind, mode, ns, batch) {
			r.Inconclusive("datagram-phase-abandoned-after-wedge")
			break
		}
	}
}

// ---------------------------------------------------------------------------------------------
// phase 3: HTTP ingestion router

type httpHandlerSpy struct {
	mu        sync.Mutex
	maps      int
	events    int
	sentinel  int64
	lastTitle string
}

func (h *httpHandlerSpy) EstimatedTags() int { return 0 }
func (h *httpHandlerSpy) WaitForEvents()     {}
func (h *httpHandlerSpy) DispatchEvent(ctx context.Context, e *gostatsd.Event) {
	n := len(e.Title) + len(e.Text) + len(e.Tags)
	_ = n
	h.mu.Lock()
	h.events++
	h.lastTitle = e.Title
	h.mu.Unlock()
}
func (h *httpHandlerSpy) DispatchMetricMap(ctx context.Context, mm *gostatsd.MetricMap) {
	// walk the whole map as the next pipeline stage would
	n := 0
	var sentinel int64
	mm.Counters.Each(func(name, tk string, c gostatsd.Counter) {
		n += len(c.Tags) + len(c.Source)
		if name == "verif.http.sentinel" {
			sentinel = c.Value
		}
	})
	mm.Timers.Each(func(name, tk string, t gostatsd.Timer) { n += len(t.Values) + len(t.Tags) })
	mm.Gauges.Each(func(name, tk string, g gostatsd.Gauge) { n += len(g.Tags) })
	mm.Sets.Each(func(name, tk string, s gostatsd.Set) { n += len(s.Values) + len(s.Tags) })
	h.mu.Lock()
	h.maps++
	if sentinel != 0 {
		h.sentinel = sentinel
	}
	h.mu.Unlock()
}
func (h *httpHandlerSpy) counts() (int, int) {
	h.mu.Lock()
	defer h.mu.Unlock()
	return h.maps, h.events
}

// statusWriter is a ResponseWriter that knows whether the handler produced a status itself.
type statusWriter struct {
	hdr          http.Header
	code         int
	writeHeaders int
	bytes        int
}

func (w *statusWriter) Header() http.Header { return w.hdr }
func (w *statusWriter) WriteHeader(c int) {
	w.writeHeaders++
	if w.code == 0 {
		w.code = c
	}
}
func (w *statusWriter) Write(b []byte) (int, error) {
	if w.code == 0 {
		w.code = 200
	}
	w.bytes += len(b)
	return len(b), nil
}

func randTags(rng *rand.Rand) []string {
	n := rng.Intn(4)
	var out []string
	for i := 0; i < n; i++ {
		out = append(out, gen.Tag(rng, gen.LineOpts{UTF8Only: rng.Intn(4) != 0}))
	}
	return out
}

func randRawMessage(rng *rand.Rand) *pb.RawMessageV2 {
	m := &pb.RawMessageV2{}
	if rng.Intn(10) == 0 {
		return m
	}
	name := func() string { _, w := gen.Name(rng, true); return w }
	host := func() string { return []string{"", "h1", "10.0.0.1"}[rng.Intn(3)] }
	for i := rng.Intn(4); i > 0; i-- {
		if m.Counters == nil {
			m.Counters = map[string]*pb.CounterTagV2{}
		}
		tm := &pb.CounterTagV2{TagMap: map[string]*pb.RawCounterV2{}}
		for j := rng.Intn(3); j >= 0; j-- {
			t := randTags(rng)
			tm.TagMap[strings.Join(t, ",")] = &pb.RawCounterV2{Tags: t, Hostname: host(), Value: rng.Int63n(1000) - 500}
		}
		if rng.Intn(12) == 0 {
			tm.TagMap["nil"] = nil
		}
		m.Counters[name()] = tm
	}
	for i := rng.Intn(3); i > 0; i-- {
		if m.Gauges == nil {
			m.Gauges = map[string]*pb.GaugeTagV2{}
		}
		tm := &pb.GaugeTagV2{TagMap: map[string]*pb.RawGaugeV2{}}
		for j := rng.Intn(2); j >= 0; j-- {
			t := randTags(rng)
			tm.TagMap[strings.Join(t, ",")] = &pb.RawGaugeV2{Tags: t, Hostname: host(), Value: rng.NormFloat64()}
		}
		m.Gauges[name()] = tm
	}
	for i := rng.Intn(3); i > 0; i-- {
		if m.Timers == nil {
			m.Timers = map[string]*pb.TimerTagV2{}
		}
		tm := &pb.TimerTagV2{TagMap: map[string]*pb.RawTimerV2{}}
		t := randTags(rng)
		vals := make([]float64, rng.Intn(5))
		for k := range vals {
			vals[k] = rng.Float64() * 100
		}
		tm.TagMap[strings.Join(t, ",")] = &pb.RawTimerV2{Tags: t, Hostname: host(), SampleCount: float64(len(vals)), Values: vals}
		m.Timers[name()] = tm
	}
	for i := rng.Intn(3); i > 0; i-- {
		if m.Sets == nil {
			m.Sets = map[string]*pb.SetTagV2{}
		}
		tm := &pb.SetTagV2{TagMap: map[string]*pb.RawSetV2{}}
		t := randTags(rng)
		tm.TagMap[strings.Join(t, ",")] = &pb.RawSetV2{Tags: t, Hostname: host(), Values: []string{"a", gen.Token(rng, gen.LineOpts{UTF8Only: true}, "", 6)}}
		if rng.Intn(8) == 0 {
			m.Sets[name()] = nil
		} else {
			m.Sets[name()] = tm
		}
	}
	return m
}

func randEventMessage(rng *rand.Rand) *pb.EventV2 {
	tok := func() string { return gen.Token(rng, gen.LineOpts{UTF8Only: true}, "", 12) }
	e := &pb.EventV2{Title: tok(), Text: tok(), DateHappened: rng.Int63() - rng.Int63(), Hostname: tok(), AggregationKey: tok(), SourceTypeName: tok(), Tags: randTags(rng), SourceIP: "1.2.3.4"}
	e.Priority = pb.EventV2_EventPriority(rng.Intn(4) - 1)
	e.Type = pb.EventV2_AlertType(rng.Intn(7) - 1)
	if rng.Intn(6) == 0 {
		e.Priority = pb.EventV2_EventPriority(rng.Int31())
		e.Type = pb.EventV2_AlertType(-rng.Int31())
	}
	return e
}

// craftedWire builds protobuf wire data by hand: map entries without value or key, nested entries without
// sub-message, wrong wire types, reserved field numbers, length prefixes that lie, groups, over-long varints.
func craftedWire(rng *rand.Rand) []byte {
	var b []byte
	entry := func(field protowire.Number, key string, val []byte, withKey, withVal bool) []byte {
		var e []byte
		if withKey {
			e = protowire.AppendTag(e, 1, protowire.BytesType)
			e = protowire.AppendString(e, key)
		}
		if withVal {
			e = protowire.AppendTag(e, 2, protowire.BytesType)
			e = protowire.AppendBytes(e, val)
		}
		out := protowire.AppendTag(nil, field, protowire.BytesType)
		return protowire.AppendBytes(out, e)
	}
	field := protowire.Number(1 + rng.Intn(4))
	switch rng.Intn(14) {
	case 0: // name entry without TagMap message
		b = entry(field, "n", nil, true, false)
	case 1: // name entry without key
		b = entry(field, "", entry(1, "t", nil, true, false), false, true)
	case 2: // tag entry without the Raw* value
		b = entry(field, "n", entry(1, "a,b", nil, true, false), true, true)
	case 3: // tag entry with an empty Raw* value, and an entry with neither key nor value
		b = entry(field, "n", append(entry(1, "", []byte{}, true, true), entry(1, "", nil, false, false)...), true, true)
	case 4: // value field of the wrong wire type
		b = protowire.AppendTag(b, field, protowire.VarintType)
		b = protowire.AppendVarint(b, rng.Uint64())
	case 5: // field number 0
		b = append(b, 0x00, 0x01)
	case 6: // length prefix far beyond the data
		b = protowire.AppendTag(b, field, protowire.BytesType)
		b = protowire.AppendVarint(b, []uint64{1 << 31, 1<<32 - 1, 1 << 32, 1<<63 - 1, 1 << 63, ^uint64(0)}[rng.Intn(6)])
		b = append(b, 'x')
	case 7: // start group / end group
		b = protowire.AppendTag(b, field, protowire.StartGroupType)
		if rng.Intn(2) == 0 {
			b = protowire.AppendTag(b, field, protowire.EndGroupType)
		}
	case 8: // over-long varint
		b = protowire.AppendTag(b, 3, protowire.VarintType)
		b = append(b, 0xff, 0xff, 0xff, 0xff, 0xff, 0xff, 0xff, 0xff, 0xff, 0xff, 0x01)
	case 9: // packed doubles with a length that is not a multiple of 8 inside a RawTimerV2
		raw := protowire.AppendTag(nil, 4, protowire.BytesType)
		raw = protowire.AppendBytes(raw, []byte{1, 2, 3, 4, 5})
		b = entry(4, "n", entry(1, "t", raw, true, true), true, true)
	case 10: // deep nesting of unknown fields
		inner := []byte{}
		for i := 0; i < 200; i++ {
			t := protowire.AppendTag(nil, 15, protowire.BytesType)
			inner = protowire.AppendBytes(t, inner)
		}
		b = inner
	case 11: // the same map key many times
		for i := 0; i < 50; i++ {
			b = append(b, entry(field, "dup", entry(1, "t", nil, true, false), true, true)...)
		}
	case 12: // invalid UTF-8 in a string field
		b = entry(field, "\xff\xfe", nil, true, false)
	default: // huge field number
		b = protowire.AppendVarint(b, uint64(1<<29-1)<<3|uint64(protowire.BytesType))
		b = protowire.AppendBytes(b, []byte("zz"))
	}
	return b
}

// The compressors are reused (a fresh flate writer is ~1 MiB of state, which under the race detector costs
// more than everything else in this phase).
var packMu sync.Mutex
var zlibWriters = map[int]*zlib.Writer{}
var lz4Small *lz4.Writer

// detMarshal serialises maps in key order, so that the case list is a function of the seed only.
func detMarshal(m proto.Message) ([]byte, error) {
	return proto.MarshalOptions{Deterministic: true}.Marshal(m)
}

func zlibOf(b []byte, level int) []byte {
	packMu.Lock()
	defer packMu.Unlock()
	var out bytes.Buffer
	w := zlibWriters[level]
	if w == nil {
		w, _ = zlib.NewWriterLevel(&out, level)
		zlibWriters[level] = w
	} else {
		w.Reset(&out)
	}
	_, _ = w.Write(b)
	_ = w.Close()
	return out.Bytes()
}

// lz4Of makes an lz4 frame. Small blocks keep the buffers of writer and readers small (the default 4 MiB
// block buffers dominate the run time under the race detector); the bombs use the default.
func lz4Of(b []byte) []byte {
	packMu.Lock()
	defer packMu.Unlock()
	var out bytes.Buffer
	if len(b) >= 1<<20 {
		w := lz4.NewWriter(&out)
		_, _ = w.Write(b)
		_ = w.Close()
		return out.Bytes()
	}
	if lz4Small == nil {
		lz4Small = lz4.NewWriter(&out)
		_ = lz4Small.Apply(lz4.BlockSizeOption(lz4.Block64Kb))
	} else {
		lz4Small.Reset(&out)
	}
	_, _ = lz4Small.Write(b)
	_ = lz4Small.Close()
	return out.Bytes()
}

func corrupt(rng *rand.Rand, b []byte) (string, []byte) {
	out := append([]byte(nil), b...)
	if len(out) == 0 {
		return "empty", out
	}
	switch rng.Intn(6) {
	case 0:
		return "truncated", out[:rng.Intn(len(out))]
	case 1:
		for k := 1 + rng.Intn(3); k > 0; k-- {
			out[rng.Intn(len(out))] ^= 1 << uint(rng.Intn(8))
		}
		return "bitflip", out
	case 2:
		out[rng.Intn(min(len(out), 8))] = byte(rng.Intn(256))
		return "header-byte", out
	case 3:
		out[len(out)-1-rng.Intn(min(len(out), 4))] ^= 0xff
		return "trailer-byte", out
	case 4:
		return "trailing-garbage", append(out, fill(1+rng.Intn(20), func(int) byte { return byte(rng.Intn(256)) })...)
	default:
		p := rng.Intn(len(out))
		return "inserted-bytes", append(out[:p], append(fill(1+rng.Intn(8), func(int) byte { return byte(rng.Intn(256)) }), out[p:]...)...)
	}
}

type httpCase struct {
	kind     string
	method   string
	path     string
	encoding *string
	body     []byte
}

func (c *httpCase) replay(idx int) *replayCase {
	return &replayCase{Phase: "http", Kind: c.kind, Index: idx, Method: c.method, Path: c.path, Encoding: c.encoding, Hex: []string{hex.EncodeToString(c.body)}, Preview: preview(c.body)}
}

func strp(s string) *string { return &s }

func genHTTPCase(rng *rand.Rand) *httpCase {
	c := &httpCase{method: "POST", path: "/v2/raw"}
	isEvent := rng.Intn(3) == 0
	if isEvent {
		c.path = "/v2/event"
	}
	// 1. the message bytes
	var msg []byte
	var kind string
	switch k := rng.Intn(20); {
	case k < 7:
		kind = "valid"
		if isEvent {
			msg, _ = detMarshal(randEventMessage(rng))
		} else {
			msg, _ = detMarshal(randRawMessage(rng))
		}
	case k < 9: // the other endpoint's message
		kind = "other-message"
		if isEvent {
			msg, _ = detMarshal(randRawMessage(rng))
		} else {
			msg, _ = detMarshal(randEventMessage(rng))
		}
	case k < 12:
		if isEvent {
			msg, _ = detMarshal(randEventMessage(rng))
		} else {
			msg, _ = detMarshal(randRawMessage(rng))
		}
		var how string
		how, msg = corrupt(rng, msg)
		kind = "proto-" + how
	case k < 15:
		kind = "crafted-wire"
		msg = craftedWire(rng)
	case k < 18:
		kind = "random-bytes"
		msg = fill(rng.Intn(300), func(int) byte { return byte(rng.Intn(256)) })
	case k < 19:
		kind = "statsd-text"
		msg = []byte(gen.Metric(rng, gen.LineOpts{}).Line + "\n")
	default:
		kind = "empty"
	}
	// 2. how the body is packed
	switch k := rng.Intn(12); {
	case k < 3:
		c.body = msg
		kind += "/raw"
	case k < 5:
		c.body = zlibOf(msg, []int{zlib.NoCompression, zlib.BestSpeed, zlib.DefaultCompression, zlib.BestCompression}[rng.Intn(4)])
		kind += "/zlib"
	case k < 7:
		c.body = lz4Of(msg)
		kind += "/lz4"
	case k < 9:
		how, b := corrupt(rng, zlibOf(msg, zlib.DefaultCompression))
		c.body = b
		kind += "/zlib-" + how
	case k < 11:
		how, b := corrupt(rng, lz4Of(msg))
		c.body = b
		kind += "/lz4-" + how
	default:
		if rng.Intn(2) == 0 {
			c.body = zlibOf(zlibOf(msg, zlib.BestSpeed), zlib.BestSpeed)
			kind += "/zlib-twice"
		} else {
			c.body = lz4Of(zlibOf(msg, zlib.BestSpeed))
			kind += "/lz4-of-zlib"
		}
	}
	// 3. the declared encoding, independent of 2.
	switch k := rng.Intn(16); {
	case k < 3:
	case k < 5:
		c.encoding = strp("identity")
	case k < 9:
		c.encoding = strp("deflate")
	case k < 13:
		c.encoding = strp("lz4")
	case k < 14:
		c.encoding = strp([]string{"gzip", "br", "zlib", "zstd", "DEFLATE", "Lz4", "deflate, lz4", "x"}[rng.Intn(8)])
	case k < 15:
		c.encoding = strp(string(fill(100, func(int) byte { return "abcdefghijklmnopqrstuvwxyz0123456789-"[rng.Intn(37)] })))
	default:
		c.encoding = strp(string(fill(65+rng.Intn(4000), func(int) byte { return byte(0x21 + rng.Intn(0x5d)) })))
	}
	c.kind = kind
	return c
}

func encName(e *string) string {
	switch {
	case e == nil:
		return "absent"
	case *e == "identity", *e == "deflate", *e == "lz4":
		return *e
	case len(*e) >= 65:
		return "junk"
	default:
		return "unknown"
	}
}

// decodable is the harness' own statement of when a request carries a message: the declared encoding is one
// of the documented ones, the body decompresses under it (decided by the compression libraries themselves) and
// the result is a well-formed protobuf message of the endpoint's type.
func decodable(c *httpCase) (ok bool, why string) {
	b := c.body
	switch encName(c.encoding) {
	case "absent", "identity":
	case "deflate":
		zr, err := zlib.NewReader(bytes.NewReader(b))
		if err != nil {
			return false, "zlib-header"
		}
		var out bytes.Buffer
		if _, err := out.ReadFrom(zr); err != nil {
			return false, "zlib-stream"
		}
		b = out.Bytes()
	case "lz4":
		var out bytes.Buffer
		if _, err := out.ReadFrom(lz4.NewReader(bytes.NewReader(b))); err != nil {
			return false, "lz4-stream"
		}
		b = out.Bytes()
	default:
		return false, "encoding"
	}
	var err error
	if c.path == "/v2/event" {
		err = proto.Unmarshal(b, &pb.EventV2{})
	} else {
		err = proto.Unmarshal(b, &pb.RawMessageV2{})
	}
	if err != nil {
		return false, "protobuf"
	}
	return true, "ok"
}

type httpChecker struct {
	r       *mon.Run
	h       *httpHandlerSpy
	router  http.Handler
	ts      *httptest.Server
	client  *http.Client
	tcpTime time.Duration
}

func newHTTPChecker(r *mon.Run) (*httpChecker, error) {
	h := &httpHandlerSpy{}
	srv, err := web.NewHttpServer(quietLogger(), h, "verif", "127.0.0.1:0", false, false, true, false, nil, nil)
	if err != nil {
		return nil, err
	}
	c := &httpChecker{r: r, h: h, router: srv.Router}
	c.ts = httptest.NewUnstartedServer(srv.Router)
	c.ts.Config.ErrorLog = log.New(io.Discard, "", 0)
	c.ts.Start()
	c.client = c.ts.Client()
	c.client.CheckRedirect = func(*http.Request, []*http.Request) error { return http.ErrUseLastResponse }
	return c, nil
}

// serve sends one request through Router.ServeHTTP and applies the oracles; over=true sends the same
// request to the real server as well.
func (c *httpChecker) serve(idx int, hc *httpCase, over bool) {
	r := c.r
	mk := func() interface{} { return hc.replay(idx) }
	req := httptest.NewRequest(hc.method, hc.path, bytes.NewReader(hc.body))
	if hc.encoding != nil {
		req.Header.Set("Content-Encoding", *hc.encoding)
	}
	if idx%4 == 1 || idx%4 == -1 {
		// the handler is told what a chunked upload tells it: a body of unknown length
		req.ContentLength = -1
		req.TransferEncoding = []string{"chunked"}
	}
	w := &statusWriter{hdr: http.Header{}}
	maps0, events0 := c.h.counts()
	panicked := guard(r, "http-panic", mk, func() { c.router.ServeHTTP(w, req) })
	maps1, events1 := c.h.counts()
	r.Eval(1)
	r.Event("http_requests", 1)
	if !panicked {
		r.Event(fmt.Sprintf("http_status_%d", w.code), 1)
		if w.code == 0 {
			r.Violation("http-no-status", fmt.Sprintf("%s %s (%s, Content-Encoding %s) returned without a status", hc.method, hc.path, hc.kind, encName(hc.encoding)), mk())
		}
		if hc.method == "POST" && (hc.path == "/v2/raw" || hc.path == "/v2/event") && w.code != 0 {
			ok, why := decodable(hc)
			dispatched := maps1 - maps0
			if hc.path == "/v2/event" {
				dispatched = events1 - events0
			}
			switch {
			case ok && (w.code < 200 || w.code > 299 || dispatched != 1):
				r.Violation("decodable-request-not-processed", fmt.Sprintf("%s (%s, Content-Encoding %s): body decodes to a valid message but status %d, dispatched %d", hc.path, hc.kind, encName(hc.encoding), w.code, dispatched), mk())
			case !ok && (w.code < 400 || dispatched != 0):
				r.Violation("undecodable-request-accepted:"+why, fmt.Sprintf("%s (%s, Content-Encoding %s): body is not decodable (%s) but status %d, dispatched %d", hc.path, hc.kind, encName(hc.encoding), why, w.code, dispatched), mk())
			}
			r.Nontrivial(fmt.Sprintf("http|%s|%s|%s|%s", hc.path, encName(hc.encoding), strings.SplitN(hc.kind, "/", 2)[1], why))
			if r.WantSample() && idx%97 == 5 && !ok {
				r.Sample(map[string]interface{}{"phase": "http", "path": hc.path, "kind": hc.kind, "content_encoding": encName(hc.encoding), "body": preview(hc.body), "status": w.code, "reference": why})
			}
		}
	}
	if !over {
		return
	}
	n := idx / 10
	if n < 0 {
		n = -n
	}
	mode := transferModes[n%len(transferModes)]
	tcp0 := time.Now()
	status, timedOut, err := transfer(c.client, c.ts.URL, hc, mode)
	c.tcpTime += time.Since(tcp0)
	r.Event("http_requests_over_tcp", 1)
	r.Event("http_over_tcp_"+mode, 1)
	switch {
	case timedOut:
		r.Inconclusive("http-over-tcp-watchdog:" + mode)
	case err != nil:
		r.Violation("http-connection-without-status", fmt.Sprintf("%s %s (%s, Content-Encoding %s, body sent %s) over a real server: %v", hc.method, hc.path, hc.kind, encName(hc.encoding), mode, err), mk())
	case status == 0:
	case !panicked && (mode == "length" || mode == "chunked") && status != w.code:
		r.Violation("http-status-differs-over-tcp", fmt.Sprintf("%s %s (%s, body sent %s): status %d through ServeHTTP, %d over a real server", hc.method, hc.path, hc.kind, mode, w.code, status), mk())
	}
}

func (c *httpChecker) sentinel(idx int) {
	v := int64(idx + 1)
	msg, _ := detMarshal(&pb.RawMessageV2{Counters: map[string]*pb.CounterTagV2{"verif.http.sentinel": {TagMap: map[string]*pb.RawCounterV2{"": {Value: v}}}}})
	hc := &httpCase{kind: "sentinel/zlib", method: "POST", path: "/v2/raw", encoding: strp("deflate"), body: zlibOf(msg, zlib.DefaultCompression)}
	c.serve(idx, hc, idx%500 == 0)
	c.h.mu.Lock()
	got := c.h.sentinel
	c.h.mu.Unlock()
	if got != v {
		c.r.Violation("http-sentinel-not-processed", fmt.Sprintf("valid request after case %d: handler saw sentinel %d, want %d", idx, got, v), hc.replay(idx))
	}
	title := fmt.Sprintf("sentinel-%d", idx)
	emsg, _ := detMarshal(&pb.EventV2{Title: title})
	he := &httpCase{kind: "sentinel/lz4", method: "POST", path: "/v2/event", encoding: strp("lz4"), body: lz4Of(emsg)}
	c.serve(idx, he, false)
	c.h.mu.Lock()
	gotTitle := c.h.lastTitle
	c.h.mu.Unlock()
	if gotTitle != title {
		c.r.Violation("http-sentinel-not-processed", fmt.Sprintf("valid event after case %d: handler saw title %q, want %q", idx, gotTitle, title), he.replay(idx))
	}
}

// bombs: a handful of highly compressible bodies, at most 64 MiB after decompression, one per shard (each
// costs seconds under the race detector).
func (c *httpChecker) bombs(tick func(*replayCase)) {
	type bomb struct {
		kind string
		size int
		enc  string
		path string
	}
	list := []bomb{
		{"bomb-zeros/zlib", 64 << 20, "deflate", "/v2/raw"},
		{"bomb-zeros/zlib", 16 << 20, "deflate", "/v2/event"},
		{"bomb-zeros/lz4", 16 << 20, "lz4", "/v2/raw"},
		{"bomb-valid/zlib", 16 << 20, "deflate", "/v2/event"},
		{"bomb-valid/lz4", 16 << 20, "lz4", "/v2/event"},
		{"bomb-zeros/lz4", 64 << 20, "lz4", "/v2/event"},
	}
	for i, v := range list {
		if !c.r.Mine(i) {
			continue
		}
		var plain []byte
		if strings.HasPrefix(v.kind, "bomb-valid") {
			plain = bytes.Repeat([]byte{0x0a, 0x01, 'a'}, v.size/3) // EventV2.Title = "a", again and again: a valid message
		} else {
			plain = make([]byte, v.size)
		}
		var body []byte
		if v.enc == "lz4" {
			body = lz4Of(plain)
		} else {
			body = zlibOf(plain, zlib.BestSpeed)
		}
		plain = nil
		c.r.Case("phase=http bomb idx=%d kind=%s decompressed=%d compressed=%d", i, v.kind, v.size, len(body))
		tick(&replayCase{Phase: "http", Kind: v.kind, Index: -1 - i, Method: "POST", Path: v.path, Encoding: strp(v.enc), Hex: []string{hex.EncodeToString(body)}})
		c.serve(-1-i, &httpCase{kind: v.kind, method: "POST", path: v.path, encoding: strp(v.enc), body: body}, v.size == 16<<20 && v.enc == "lz4")
		c.r.Event("http_bombs", 1)
	}
}

func phaseHTTP(r *mon.Run, upTo int) {
	var c *httpChecker
	rng := r.Rand("http")
	n := r.N(20000, 600000)
	if upTo >= 0 {
		n = upTo + 1
	}
	body := func(tick func(*replayCase)) {
		var err error
		c, err = newHTTPChecker(r)
		if err != nil {
			r.Inconclusive("http-server-not-constructed")
			return
		}
		defer c.ts.Close()
		defer func() { r.Extra("http_over_tcp_s", c.tcpTime.Seconds()) }()
		for i := 0; i < n; i++ {
			hc := genHTTPCase(rng)
			if upTo >= 0 && i != upTo {
				continue
			}
			if len(hc.body) < 4000 {
				r.Case("phase=http idx=%d kind=%s %s %s encoding=%s body=%x", i, hc.kind, hc.method, hc.path, encName(hc.encoding), hc.body)
			} else {
				r.Case("phase=http idx=%d kind=%s %s %s encoding=%s bytes=%d", i, hc.kind, hc.method, hc.path, encName(hc.encoding), len(hc.body))
			}
			tick(hc.replay(i))
			c.serve(i, hc, i%10 == 0)
			if i%50 == 49 {
				c.sentinel(i)
			}
		}
		if upTo < 0 {
			c.bombs(tick)
		}
		if s, _ := r.Shard(); s == 0 && upTo < 0 {
			// requests outside the two ingestion routes still get a status from the router
			for i, v := range []struct{ m, p string }{{"GET", "/v2/raw"}, {"PUT", "/v2/event"}, {"POST", "/v2/rawx"}, {"POST", "/"}, {"DELETE", "/v2/raw/"}, {"POST", "//v2/raw"}, {"POST", "/v2/../v2/raw"}} {
				tick(&replayCase{Phase: "http", Kind: "other-route", Index: -100 - i, Method: v.m, Path: v.p})
				c.serve(-100-i, &httpCase{kind: "other-route/raw", method: v.m, path: v.p, body: []byte("x")}, true)
			}
		}
	}
	again := func(cs *replayCase) {
		c2, err := newHTTPChecker(r)
		if err != nil {
			return
		}
		defer c2.ts.Close()
		if len(cs.Hex) == 1 {
			b, _ := hex.DecodeString(cs.Hex[0])
			c2.serve(cs.Index, &httpCase{kind: cs.Kind, method: cs.Method, path: cs.Path, encoding: cs.Encoding, body: b}, false)
		}
	}
	watched(r, "http", body, again)
}

// ---------------------------------------------------------------------------------------------

func TestCheck(t *testing.T) {
	logrus.SetOutput(io.Discard) // the parser logs bad lines through the global logger
	r := mon.Start(t, "C03")
	defer r.Finish()
	r.Rule("three input families, all PRNG-determined: (1) lines for the lexer entry: structure-aware random bytes with NUL, single-point mutations of grammar derivations with NUL/odd bytes, and `_e{n,m}` headers whose lengths are enumerated (and sampled) around 0, the body lengths, 2^16, 2^31, 2^32, 2^63, 2^64, 20+ digits and the sums that wrap a 32-bit addition, crossed with bodies shorter/equal/longer than declared; (2) datagrams of 0..65535 bytes (line mixtures, random bytes, one very long component, tens of thousands of short or empty lines), alone or in batches, fed to a real DatagramParser.Run goroutine directly or through a real DatagramReceiver on a fake socket, each followed by a sentinel line; (3) POSTs to /v2/raw and /v2/event through the router of web.NewHttpServer: valid, truncated, bit-flipped and hand-crafted protobuf (absent sub-messages, lying lengths, groups), random bytes, packed raw / zlib / lz4 / corrupted zlib / corrupted lz4 / doubly packed, crossed with Content-Encoding absent, identity, deflate, lz4, unknown and 65..4000-byte junk; every 10th also over a real TCP server; a few 16-64 MiB decompression bombs. (4) end to end: the same router and a DatagramParser in front of the real TagHandler -> BackendHandler (2-4 workers, real aggregators) -> MetricFlusher on a mock clock -> capturing backend, fed groups of legal but unusual protobuf bodies (empty sets, timers without values but with a sample count and the reverse, NaN/Inf, empty names and tag-map keys, out-of-range event enums) and UDP lines on one small name/tag/host pool, with idle re-flushes; after each group a sentinel gauge must come out of one of the next flushes (bound 200) (tick through the mock clock, wait for the flush notification and every worker's backend call). (5) transfer modes and the real server: requests over TCP with a declared length, chunked (unknown length) or a lying Content-Length, and a quarter of the direct calls with ContentLength -1; the real statsd.Server (RunWithCustomSocket, standalone, HTTP server from configuration text) over random legal start-up configurations (readers 1-2, parsers 1-4, workers 1-3, queue 1/16/1000, max-concurrent-events 1..1024 incl. below the number of backends, 1-3 backends, namespace) fed groups of hostile datagrams with valid events and hostile requests in every transfer mode; after each group a UDP and an HTTP sentinel must reach every backend, at the end the parser.* gauges the server reports must add up to the lines sent and every valid event must have reached every backend; a stage that stalls is repeated on a fresh server before it is reported. Half of the server configurations run the real CachedCloudProvider (scripted provider, 2 ms refresh / 4 ms TTL / 7 ms idle eviction, composed as cmd/gostatsd does) with 40 senders plus a rotating stream of up to 4000 datagrams from 64 senders. Held requests: two background scenarios per quick run in which the only backend holds a flush and an event for 11-13 s of real time while metric bodies and events are posted over TCP; each must get its 2xx when the pipeline lets go. Oracles: no panic, return within the watchdog (non-return reproduced once, then a violation), exactly one of metric/event/error per line, lines = metrics_received + events_received + bad_lines_seen growth with bad lines = lines the lexer rejects, sentinel processed after every batch / every 50 requests, a status for every request, decodable requests (by an independent decode with the compression and protobuf libraries) answered 2xx and dispatched once, undecodable ones answered >=400 and not dispatched. Non-trivial: an input that gets past the first lexer state or a datagram with rejected lines / events / >=1500 bytes, or a request reaching a decompression / unmarshal decision; distinct by (family, outcome or error class) resp. (datagram kind, mode, size class, what it produced) resp. (path, declared encoding, packing, reference verdict) resp. (unusual feature of the body, workers, expiry) resp. (parsers, backends, event budget below/above backends, queue, namespace).")
	r.Assume("compress/zlib, pierrec/lz4 and google.golang.org/protobuf decide what a decodable body is; the status-class oracle for undecodable bodies follows the current tree (the statement only demands some status)")
	r.Assume("the unbuffered hand-off between receiver, parser input channel and parser loop is what makes 'everything before the fence is processed' observable")

	if p := r.ReplayPayload(); p != nil {
		replay(t, r, p)
		return
	}
	waitSlow := startSlow(r) // 11-13 s of real time each, in the background
	t0 := time.Now()
	phaseLexer(r, -1)
	t1 := time.Now()
	phaseDatagrams(r, -1)
	t2 := time.Now()
	phaseHTTP(r, -1)
	t3 := time.Now()
	phaseServer(r, -1)
	waitSlow()
	t4 := time.Now()
	phaseE2E(r, -1) // last: a crash further down the pipeline kills this process
	r.Extra("phase_server_cpu_s", t4.Sub(t3).Seconds())
	r.Extra("phase_e2e_cpu_s", time.Since(t4).Seconds())
	// measured cost per phase, summed over the shards (evidence only)
	r.Extra("phase_lexer_cpu_s", t1.Sub(t0).Seconds())
	r.Extra("phase_datagram_cpu_s", t2.Sub(t1).Seconds())
	r.Extra("phase_http_cpu_s", t3.Sub(t2).Seconds())
}

var idxRe = regexp.MustCompile(`phase=(\w+) idx=(\d+)`)

func replay(t *testing.T, r *mon.Run, p []byte) {
	r.Nontrivial("replay-a")
	r.Nontrivial("replay-b")
	if cs, ok := mon.ReplayCase(p, &replayCase{}).(*replayCase); ok && cs != nil {
		var raw [][]byte
		for _, h := range cs.Hex {
			b, _ := hex.DecodeString(h)
			raw = append(raw, b)
		}
		switch cs.Phase {
		case "lexer":
			if len(raw) == 1 {
				(&lexChecker{r: r, lx: statsd.VerifNewLexer(0)}).run(cs.Kind, cs.Index, raw[0], cs.Namespace)
				r.Eval(1)
			}
		case "datagram":
			c := &dgramChecker{r: r, lx: statsd.VerifNewLexer(0), rigs: map[string]*rig{}}
			if len(raw) > 0 {
				c.runBatch(cs.Index, cs.Kind, cs.Mode, cs.Namespace, raw)
			}
		case "e2e":
			phaseE2E(r, cs.Index)
		case "server":
			phaseServer(r, cs.Index)
		case "slow":
			slowScenario(r, cs.Index)
		case "http":
			c, err := newHTTPChecker(r)
			if err == nil && len(raw) == 1 {
				c.serve(cs.Index, &httpCase{kind: cs.Kind + "/replay", method: cs.Method, path: cs.Path, encoding: cs.Encoding, body: raw[0]}, true)
				c.ts.Close()
			}
		}
		return
	}
	// a crash of the process: only the last write-ahead line is known; re-run that case by index
	var f struct {
		LastCase string `json:"last_case"`
	}
	if json.Unmarshal(p, &f) == nil {
		if m := idxRe.FindStringSubmatch(f.LastCase); m != nil {
			idx, _ := strconv.Atoi(m[2])
			switch m[1] {
			case "lexer":
				phaseLexer(r, idx)
			case "datagram":
				phaseDatagrams(r, idx)
			case "http":
				phaseHTTP(r, idx)
			case "e2e":
				phaseE2E(r, idx)
			case "server":
				phaseServer(r, idx)
			}
			return
		}
	}
	t.Skip("no case in replay file")
}
