//go:build verif

// C03, server variant — whether hostile input can wedge the process also depends on how the process was started:
// how many parser goroutines share the socket, how large the event semaphore is compared with the number of
// backends, which HTTP server carries the ingestion routes. This variant runs the REAL statsd.Server
// (RunWithCustomSocket, standalone mode, internal statser, the HTTP server from configuration text) over random
// legal start-up configurations — max-readers 1-2, max-parsers 1-4, max-workers 1-3, max-queue-size,
// max-concurrent-events from 1 (below the number of backends) to 1024, 1-3 capturing backends — and feeds it
// groups of hostile datagrams (with valid events among them) on a scripted socket and hostile requests over real
// TCP connections in every transfer mode (declared length, chunked, lying Content-Length). Oracle = the
// statement: no panic (the driver reports a crash with the write-ahead step), every request is answered with a
// status, and later input is still processed: after every group a sentinel sent by UDP and one sent by HTTP
// must reach every backend, and at the end so must every valid event. A stage that does not complete is run
// once more on a fresh server before it is reported (bounded progress of a deterministic script).
package c03

import (
	"context"
	"errors"
	"fmt"
	"math/rand"
	"net"
	"net/http"
	"strings"
	"sync"
	"sync/atomic"
	"time"

	"github.com/sirupsen/logrus"
	"github.com/spf13/viper"
	"golang.org/x/time/rate"

	"github.com/atlassian/gostatsd"
	"github.com/atlassian/gostatsd/pb"
	"github.com/atlassian/gostatsd/pkg/cachedinstances/cloudprovider"
	"github.com/atlassian/gostatsd/pkg/statsd"

	"verif/mon"
	"verif/netx"
)

// srvConn is the scripted socket of the server variant: every datagram has a sender of its own.
type srvPkt struct {
	msg  []byte
	addr net.Addr
}

type srvConn struct {
	ch     chan srvPkt
	closed chan struct{}
	once   sync.Once
}

func (c *srvConn) ReadFrom(b []byte) (int, net.Addr, error) {
	select {
	case p := <-c.ch:
		return copy(b, p.msg), p.addr, nil
	case <-c.closed:
		return 0, nil, errors.New("use of closed network connection")
	}
}
func (c *srvConn) WriteTo(b []byte, addr net.Addr) (int, error) { return len(b), nil }
func (c *srvConn) Close() error                                 { c.once.Do(func() { close(c.closed) }); return nil }
func (c *srvConn) LocalAddr() net.Addr                          { return fakeAddr }
func (c *srvConn) SetDeadline(t time.Time) error                { return nil }
func (c *srvConn) SetReadDeadline(t time.Time) error            { return nil }
func (c *srvConn) SetWriteDeadline(t time.Time) error           { return nil }

// scriptedCloud is the cloud provider under the real CachedCloudProvider: it always answers, after a varying delay.
type scriptedCloud struct {
	batch int
	calls atomic.Int64
}

func (p *scriptedCloud) Name() string           { return "scripted" }
func (p *scriptedCloud) MaxInstancesBatch() int { return p.batch }
func (p *scriptedCloud) EstimatedTags() int     { return 2 }
func (p *scriptedCloud) Instance(ctx context.Context, ips ...gostatsd.Source) (map[gostatsd.Source]*gostatsd.Instance, error) {
	n := p.calls.Add(1)
	if n%5 == 0 {
		time.Sleep(time.Duration(n%7) * 100 * time.Microsecond) // varying latency, not a synchronisation
	}
	out := make(map[gostatsd.Source]*gostatsd.Instance, len(ips))
	for _, ip := range ips {
		if len(ip)%5 == 0 {
			out[ip] = nil // not found: negative cache entry
			continue
		}
		out[ip] = &gostatsd.Instance{ID: "i-" + ip, Tags: gostatsd.Tags{"region:r1", "az:" + string(ip[len(ip)-1:])}}
	}
	return out, nil
}

const serverWatchdog = watchdog / 4

type srvBackend struct {
	idx    int
	mu     sync.Mutex
	gauges map[string]bool
	events map[string]int
	parser map[string]float64 // latest parser.* gauges of the server's own statser
	churn  int64              // sum of every flushed verif.churn counter
	calls  int
}

func (b *srvBackend) Name() string { return fmt.Sprintf("verif-srv-%d", b.idx) }
func (b *srvBackend) SendMetricsAsync(ctx context.Context, mm *gostatsd.MetricMap, cb gostatsd.SendCallback) {
	var found []string
	parserVals := map[string]float64{}
	n := 0
	mm.Gauges.Each(func(name, tk string, g gostatsd.Gauge) {
		if strings.Contains(name, "verif.srv.") {
			found = append(found, name)
		}
		for _, p := range []string{"parser.metrics_received", "parser.events_received", "parser.bad_lines_seen"} {
			if strings.HasSuffix(name, "statsd."+p) {
				parserVals[p] = g.Value
			}
		}
	})
	var churn int64
	mm.Counters.Each(func(name, tk string, c gostatsd.Counter) {
		n += len(c.Tags)
		if strings.HasSuffix(name, "verif.churn") {
			churn += c.Value
		}
	})
	mm.Timers.Each(func(name, tk string, t gostatsd.Timer) { n += len(t.Values) + len(t.Percentiles) })
	mm.Sets.Each(func(name, tk string, s gostatsd.Set) { n += len(s.Values) })
	b.mu.Lock()
	for _, f := range found {
		b.gauges[f] = true
	}
	for k, v := range parserVals {
		b.parser[k] = v
	}
	b.churn += churn
	b.calls++ // last: whoever sees the call sees what it carried
	b.mu.Unlock()
	cb(nil)
}
func (b *srvBackend) SendEvent(ctx context.Context, e *gostatsd.Event) error {
	b.mu.Lock()
	b.events[e.Title]++
	b.mu.Unlock()
	return nil
}
func (b *srvBackend) hasGauge(suffix string) bool {
	b.mu.Lock()
	defer b.mu.Unlock()
	for k := range b.gauges {
		if strings.HasSuffix(k, suffix) {
			return true
		}
	}
	return false
}
func (b *srvBackend) flushed() (churn int64, calls int) {
	b.mu.Lock()
	defer b.mu.Unlock()
	return b.churn, b.calls
}
func (b *srvBackend) accounted() (metrics, events, bad float64) {
	b.mu.Lock()
	defer b.mu.Unlock()
	return b.parser["parser.metrics_received"], b.parser["parser.events_received"], b.parser["parser.bad_lines_seen"]
}
func (b *srvBackend) missingEvents(titles []string) []string {
	b.mu.Lock()
	defer b.mu.Unlock()
	var out []string
	for _, t := range titles {
		if b.events[t] == 0 {
			out = append(out, t)
		}
	}
	return out
}

type srvConfig struct {
	Index     int    `json:"index"`
	Readers   int    `json:"max_readers"`
	Parsers   int    `json:"max_parsers"`
	Workers   int    `json:"max_workers"`
	Queue     int    `json:"max_queue_size"`
	MaxEvents int    `json:"max_concurrent_events"`
	Backends  int    `json:"backends"`
	Namespace string `json:"namespace"`
	Cloud     bool   `json:"cloud"` // the real CachedCloudProvider in front of the pipeline, many senders
	Config    string `json:"config"`
}

type srvStep struct {
	udp      []byte    // a datagram, or
	http     *httpCase // a request, sent in
	mode     string    // this transfer mode
	sentinel string    // non-empty: wait until every backend has this gauge
	event    string    // title of a valid event carried by this step
}

func genServerScript(rng *rand.Rand, k int) []srvStep {
	var steps []srvStep
	ev := 0
	for g := 0; g < 4; g++ {
		for i, n := 0, 2+rng.Intn(5); i < n; i++ {
			switch c := rng.Intn(10); {
			case c < 3:
				_, d := genDatagram(rng)
				if len(d) > 6000 {
					d = d[:6000]
				}
				steps = append(steps, srvStep{udp: d})
			case c < 5:
				// a valid event between hostile lines
				ev++
				title := fmt.Sprintf("srv%de%d", k, ev)
				lines := []string{string(mixLine(rng)), fmt.Sprintf("_e{%d,2}:%s|tx|#a:b", len(title), title), string(mixLine(rng))}
				steps = append(steps, srvStep{udp: []byte(strings.ReplaceAll(strings.Join(lines, "\n"), "\x00", "")), event: title})
			case c < 8:
				steps = append(steps, srvStep{http: genHTTPCase(rng), mode: transferModes[rng.Intn(len(transferModes))]})
			default:
				ev++
				title := fmt.Sprintf("srv%de%d", k, ev)
				e, _ := legalEvent(rng)
				e.Title = title
				msg, _ := detMarshal(e)
				hc := &httpCase{kind: "legal-event/raw", method: "POST", path: "/v2/event", body: msg}
				if rng.Intn(2) == 0 {
					hc.body, hc.encoding, hc.kind = lz4Of(msg), strp("lz4"), "legal-event/lz4"
				}
				steps = append(steps, srvStep{http: hc, mode: []string{"length", "chunked"}[rng.Intn(2)], event: title})
			}
		}
		us := fmt.Sprintf("verif.srv.u%dg%d", k, g)
		steps = append(steps, srvStep{udp: []byte(us + ":1|g"), sentinel: us})
		hs := fmt.Sprintf("verif.srv.h%dg%d", k, g)
		msg, _ := detMarshal(&pb.RawMessageV2{Gauges: map[string]*pb.GaugeTagV2{hs: {TagMap: map[string]*pb.RawGaugeV2{"": {Value: 1}}}}})
		steps = append(steps, srvStep{http: &httpCase{kind: "sentinel/raw", method: "POST", path: "/v2/raw", body: msg}, mode: []string{"length", "chunked"}[g%2], sentinel: hs})
	}
	return steps
}

func freeAddr() (string, error) {
	l, err := net.Listen("tcp", netx.IP()+":0") // this process's own loopback address: no other process can be given the port
	if err != nil {
		return "", err
	}
	defer l.Close()
	return l.Addr().String(), nil
}

// runServerScript runs the script on a fresh server. It returns "" or the stage that did not complete.
func runServerScript(r *mon.Run, sc *srvConfig, steps []srvStep, second bool) (stage string) {
	addr, err := freeAddr()
	if err != nil {
		r.Inconclusive("server-no-free-port")
		return ""
	}
	sc.Config = fmt.Sprintf("http-servers: [\"ingest\"]\nhttp:\n  ingest:\n    address: %q\n    enable-ingestion: true\n", addr)
	v := viper.New()
	v.SetConfigType("yaml")
	if err := v.ReadConfig(strings.NewReader(sc.Config)); err != nil {
		r.Inconclusive("server-bad-config-text")
		return ""
	}
	var bes []*srvBackend
	var bs []gostatsd.Backend
	for i := 0; i < sc.Backends; i++ {
		b := &srvBackend{idx: i, gauges: map[string]bool{}, events: map[string]int{}, parser: map[string]float64{}}
		bes, bs = append(bes, b), append(bs, b)
	}
	srv := &statsd.Server{
		Backends:              bs,
		ExpiryIntervalCounter: time.Minute, ExpiryIntervalGauge: time.Minute, ExpiryIntervalSet: time.Minute, ExpiryIntervalTimer: time.Minute,
		FlushInterval: 20 * time.Millisecond, MaxReaders: sc.Readers, MaxParsers: sc.Parsers, MaxWorkers: sc.Workers, MaxQueueSize: sc.Queue, MaxConcurrentEvents: sc.MaxEvents,
		Namespace: sc.Namespace, InternalNamespace: "statsd", EstimatedTags: 2, StatserType: gostatsd.StatserInternal, PercentThreshold: []float64{90},
		ReceiveBatchSize: 1, ServerMode: "standalone", DisableInternalEvents: true, Viper: v,
	}
	if sc.Cloud {
		// composed like cmd/gostatsd does: the cache is the server's CachedInstances and one of its runnables. Refresh,
		// TTL and idle periods are short, so that eviction ticks overlap ingestion from many senders.
		ci := cloudprovider.NewCachedCloudProvider(logrus.StandardLogger(), rate.NewLimiter(rate.Inf, 1), &scriptedCloud{batch: 1 + sc.Index%16}, gostatsd.CacheOptions{
			CacheRefreshPeriod: 2 * time.Millisecond, CacheEvictAfterIdlePeriod: 7 * time.Millisecond, CacheTTL: 4 * time.Millisecond, CacheNegativeTTL: 4 * time.Millisecond,
		})
		srv.CachedInstances = ci
		srv.Runnables = append(srv.Runnables, ci.Run)
	}
	conn := &srvConn{ch: make(chan srvPkt), closed: make(chan struct{})}
	sender := func(i int) net.Addr {
		if !sc.Cloud {
			return fakeAddr
		}
		return &net.UDPAddr{IP: net.IPv4(10, 9, byte(i/200), byte(1+i%200)), Port: 8125}
	}
	ctx, cancel := context.WithCancel(context.Background())
	done := make(chan struct{})
	go func() {
		defer close(done)
		_ = srv.RunWithCustomSocket(ctx, func() (net.PacketConn, error) { return conn, nil })
	}()
	defer func() {
		cancel()
		select {
		case <-done:
		case <-time.After(serverWatchdog):
			r.Inconclusive("server-did-not-stop")
		}
	}()
	// the HTTP server listens asynchronously
	if !mon.WaitUntil(serverWatchdog, func() bool {
		c, err := net.DialTimeout("tcp", addr, time.Second)
		if err == nil {
			_ = c.Close()
		}
		return err == nil
	}) {
		r.Inconclusive("server-http-not-listening")
		return ""
	}
	client := &http.Client{Timeout: serverWatchdog, Transport: &http.Transport{DisableKeepAlives: true}}
	base := "http://" + addr
	tag := ""
	if second {
		tag = " (second run)"
	}
	var events []string
	lines := 0
	// with a cloud provider: a second stream of datagrams from a rotating pool of senders, so that at every refresh tick
	// some entries are idle (evicted), some expired (looked up again) and some in use by the parsers
	var churned atomic.Int64
	stopChurn := make(chan struct{})
	churnDone := make(chan struct{})
	go func() {
		defer close(churnDone)
		if !sc.Cloud {
			return
		}
		for j := 0; j < 4000; j++ {
			burst := j / 24
			ip := 100 + (burst*8+j%8)%64
			select {
			case conn.ch <- srvPkt{msg: []byte("verif.churn:1|c"), addr: sender(ip)}:
				churned.Add(1)
			case <-stopChurn:
				return
			case <-conn.closed:
				return
			}
		}
	}()
	stopOnce := sync.Once{}
	halt := func() { stopOnce.Do(func() { close(stopChurn) }) }
	defer halt()
	for i, st := range steps {
		switch {
		case st.http == nil: // a datagram (possibly of zero bytes)
			r.Case("phase=server idx=%d step=%d%s udp %q cfg=%+v", sc.Index, i, tag, st.udp[:min(len(st.udp), 600)], *sc)
			t := time.NewTimer(serverWatchdog)
			select {
			case conn.ch <- srvPkt{msg: st.udp, addr: sender(i % 40)}:
				t.Stop()
			case <-t.C:
				return fmt.Sprintf("datagram-not-read(step %d)", i)
			}
			r.Event("server_datagrams", 1)
			lines += len(splitLines(st.udp))
			if st.event != "" {
				events = append(events, st.event)
			}
		default:
			hc := st.http
			r.Case("phase=server idx=%d step=%d%s http %s %s %s encoding=%s sent=%s body=%x cfg=%+v", sc.Index, i, tag, hc.method, hc.path, hc.kind, encName(hc.encoding), st.mode, hc.body[:min(len(hc.body), 600)], *sc)
			status, timedOut, err := transfer(client, base, hc, st.mode)
			r.Event("server_http_requests", 1)
			switch {
			case timedOut:
				return fmt.Sprintf("request-unanswered(step %d: %s %s, %s, sent %s)", i, hc.method, hc.path, hc.kind, st.mode)
			case err != nil:
				rc := hc.replay(sc.Index)
				rc.Phase = "server"
				r.Violation("http-connection-without-status", fmt.Sprintf("real server (%+v): %s %s (%s, Content-Encoding %s, body sent %s): %v", *sc, hc.method, hc.path, hc.kind, encName(hc.encoding), st.mode, err), rc)
			case status >= 200 && status <= 299:
				if st.event != "" {
					events = append(events, st.event)
				}
			case st.event != "" || st.sentinel != "":
				rc := hc.replay(sc.Index)
				rc.Phase = "server"
				r.Violation("e2e-legal-body-rejected", fmt.Sprintf("real server (%+v): well-formed %s answered %d", *sc, hc.kind, status), rc)
			}
		}
		if st.sentinel != "" {
			if !mon.WaitUntil(serverWatchdog, func() bool {
				for _, b := range bes {
					if !b.hasGauge(st.sentinel) {
						return false
					}
				}
				return true
			}) {
				return fmt.Sprintf("sentinel-not-flushed(%s)", strings.Split(st.sentinel, ".")[2][:1])
			}
			r.Event("server_sentinels", 1)
		}
	}
	halt()
	<-churnDone
	lines += int(churned.Load())
	r.Event("server_cloud_churn_datagrams", int(churned.Load()))
	// every datagram is accounted: the server's own parser.* gauges (METRICS.md), as flushed to the backends, add up to
	// the lines that were sent. This also means that no parser goroutine is still working when the server is stopped.
	if !mon.WaitUntil(serverWatchdog, func() bool {
		m, e, bad := bes[0].accounted()
		return m+e+bad >= float64(lines)
	}) {
		return "lines-not-accounted"
	}
	if m, e, bad := bes[0].accounted(); m+e+bad != float64(lines) {
		r.Violation("lines-unaccounted", fmt.Sprintf("real server (%+v): %d lines were sent in datagrams, the server reports parser.metrics_received=%v events_received=%v bad_lines_seen=%v", *sc, lines, m, e, bad), &replayCase{Phase: "server", Kind: fmt.Sprintf("%+v", *sc), Index: sc.Index})
	}
	r.Event("server_lines_accounted", lines)
	if !mon.WaitUntil(serverWatchdog, func() bool {
		for _, b := range bes {
			if len(b.missingEvents(events)) > 0 {
				return false
			}
		}
		return true
	}) {
		return "events-not-delivered"
	}
	r.Event("server_events_delivered", len(events)*len(bes))
	// Nothing may still be on its way when the server is stopped (shutdown is not this property's subject, and the
	// cloud stage hands metrics on from goroutines of its own): every datagram of the second stream has come out of a
	// flush, every sender of the script has been resolved (a last gauge from each has come out), and after that every
	// worker has flushed twice more.
	if n := churned.Load(); n > 0 {
		if !mon.WaitUntil(serverWatchdog, func() bool { c, _ := bes[0].flushed(); return c >= n }) {
			return "second-stream-not-flushed"
		}
		if c, _ := bes[0].flushed(); c != n {
			r.Violation("lines-unaccounted", fmt.Sprintf("real server (%+v): %d datagrams `verif.churn:1|c` were sent from a rotating pool of senders, the flushed counters add up to %d", *sc, n, c), &replayCase{Phase: "server", Kind: fmt.Sprintf("%+v", *sc), Index: sc.Index})
		}
	}
	if sc.Cloud {
		for i := 0; i < 40 && i < len(steps); i++ {
			name := fmt.Sprintf("verif.srv.last%dx%d", sc.Index, i)
			t := time.NewTimer(serverWatchdog)
			select {
			case conn.ch <- srvPkt{msg: []byte(name + ":1|g"), addr: sender(i)}:
				t.Stop()
			case <-t.C:
				return "datagram-not-read(last)"
			}
		}
		if !mon.WaitUntil(serverWatchdog, func() bool {
			for i := 0; i < 40 && i < len(steps); i++ {
				if !bes[0].hasGauge(fmt.Sprintf("verif.srv.last%dx%d", sc.Index, i)) {
					return false
				}
			}
			return true
		}) {
			return "sentinel-not-flushed(l)"
		}
	}
	_, c0 := bes[0].flushed()
	if !mon.WaitUntil(serverWatchdog, func() bool { _, c := bes[0].flushed(); return c >= c0+2*sc.Workers+1 }) {
		return "flushes-stopped"
	}
	return ""
}

// phaseServer runs the configurations of this shard (only: >= 0 runs that configuration alone, for a replay).
func phaseServer(r *mon.Run, only int) {
	n := r.N(24, 480)
	shard, shards := r.Shard()
	for i := 0; i < n; i++ {
		k := i*shards + shard
		if only >= 0 {
			if i > 0 {
				return
			}
			k = only
		}
		rng := r.RandGlobal(fmt.Sprintf("server-%d", k))
		sc := &srvConfig{Index: k, Readers: 1 + rng.Intn(2), Parsers: 1 + rng.Intn(4), Workers: 1 + rng.Intn(3), Queue: []int{1, 16, 1000}[rng.Intn(3)],
			MaxEvents: []int{1, 1, 2, 3, 5, 1024}[rng.Intn(6)], Backends: 1 + rng.Intn(3), Namespace: []string{"", "ns"}[rng.Intn(2)], Cloud: k%2 == 1}
		steps := genServerScript(rng, k)
		stage := runServerScript(r, sc, steps, false)
		if stage != "" {
			again := runServerScript(r, sc, steps, true)
			if again != "" {
				rc := &replayCase{Phase: "server", Kind: fmt.Sprintf("%+v", *sc), Index: k}
				cls := again
				if j := strings.Index(cls, "("); j > 0 {
					cls = cls[:j]
				}
				r.Violation("server-wedged:"+cls, fmt.Sprintf("twice, on fresh servers: the stage %q (first run: %q) did not complete within %v; start-up configuration %+v", again, stage, serverWatchdog, *sc), rc)
				r.Eval(1)
				r.Inconclusive("server-phase-abandoned-after-wedge") // every further wedge costs two watchdogs; the witness is recorded
				return
			}
			r.Inconclusive("server-watchdog-not-reproduced")
		}
		r.Eval(1)
		r.Event("server_configurations", 1)
		r.Nontrivial(fmt.Sprintf("server|cloud=%v|p%d|b%d|ev%s|q%d|ns=%v", sc.Cloud, sc.Parsers, sc.Backends, map[bool]string{true: "<backends", false: ">=backends"}[sc.MaxEvents < sc.Backends], sc.Queue, sc.Namespace != ""))
		if r.WantSample() && k%5 == 1 {
			r.Sample(map[string]interface{}{"phase": "server", "configuration": sc, "steps": len(steps)})
		}
	}
}
