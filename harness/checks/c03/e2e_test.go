//go:build verif

// C03, end-to-end variant — a body can be perfectly legal, be answered 202, and still plant a value that
// blows up one step later, on a goroutine that has no recover(): the aggregation worker that merges it with
// the next arrival, the flush that computes statistics over it, the reset that expires it. So this variant
// puts the REAL downstream chain behind the ingestion router and, in the same instance, behind a
// DatagramParser for UDP lines, wired as the server wires it:
//
//	router / parser -> statsd.NewTagHandler -> statsd.NewBackendHandler (2-4 workers, real MetricAggregators)
//	                -> statsd.NewMetricFlusher on a mock clock -> capturing backend
//
// and feeds it groups of *legal but unusual* protobuf bodies and UDP lines from a small name / tag / host pool,
// so that the same series arrives repeatedly across bodies and across HTTP + UDP and every merge, Flush /
// Process / Reset and idle re-flush runs on what ingestion produced. Oracle = the statement of C03: no panic
// anywhere (a panic off this goroutine kills the process; the driver reports crash:<function> with the last
// r.Case line), every request answered with a status (2xx: the bodies are legal), and later input is still
// processed: a sentinel datapoint sent after each group must come out of a subsequent flush.
package c03

import (
	"bytes"
	"compress/zlib"
	"context"
	"fmt"
	"math"
	"math/rand"
	"net/http"
	"net/http/httptest"
	"strings"
	"sync"
	"sync/atomic"
	"time"

	"github.com/tilinna/clock"

	"github.com/atlassian/gostatsd"
	"github.com/atlassian/gostatsd/pb"
	"github.com/atlassian/gostatsd/pkg/stats"
	"github.com/atlassian/gostatsd/pkg/statsd"
	"github.com/atlassian/gostatsd/pkg/web"

	"verif/mon"
)

// e2eBackend is the backend at the end of the chain: it reads every field of what is flushed, as a real
// backend does while it builds its payload, and remembers which sentinels it has seen.
type e2eBackend struct {
	mu        sync.Mutex
	calls     int
	series    int
	events    int
	sentinels map[string]float64
	sink      float64
}

func (b *e2eBackend) Name() string { return "verif-e2e" }

func (b *e2eBackend) SendMetricsAsync(ctx context.Context, mm *gostatsd.MetricMap, cb gostatsd.SendCallback) {
	var acc float64
	n := 0
	found := map[string]float64{}
	mm.Counters.Each(func(name, tk string, c gostatsd.Counter) {
		n++
		acc += float64(c.Value) + c.PerSecond + float64(len(c.Tags)+len(c.Source)+len(tk))
	})
	mm.Gauges.Each(func(name, tk string, g gostatsd.Gauge) {
		n++
		acc += g.Value + float64(len(g.Tags))
		if strings.Contains(name, "verif.e2e.s") {
			found[name] = g.Value
		}
	})
	mm.Sets.Each(func(name, tk string, s gostatsd.Set) {
		n++
		acc += float64(len(s.Values) + len(s.Tags))
		for v := range s.Values {
			acc += float64(len(v))
		}
	})
	mm.Timers.Each(func(name, tk string, t gostatsd.Timer) {
		n++
		acc += t.Min + t.Max + t.Mean + t.Median + t.StdDev + t.Sum + t.SumSquares + t.PerSecond + t.SampledCount + float64(t.Count)
		for _, v := range t.Values {
			acc += v
		}
		for _, p := range t.Percentiles {
			acc += p.Float + float64(len(p.Str))
		}
		for th, c := range t.Histogram {
			acc += float64(th) + float64(c)
		}
	})
	b.mu.Lock()
	b.calls++
	b.series += n
	b.sink += acc
	for k, v := range found {
		b.sentinels[k] = v
	}
	b.mu.Unlock()
	cb(nil)
}

func (b *e2eBackend) SendEvent(ctx context.Context, e *gostatsd.Event) error {
	n := len(e.Title) + len(e.Text) + len(e.AggregationKey) + len(e.SourceTypeName) + len(e.Source) + int(e.Priority) + int(e.AlertType)
	_ = e.Priority.String()
	_ = e.AlertType.String()
	for _, t := range e.Tags {
		n += len(t)
	}
	b.mu.Lock()
	b.events++
	b.sink += float64(n)
	b.mu.Unlock()
	return nil
}

func (b *e2eBackend) state() (calls, events int) {
	b.mu.Lock()
	defer b.mu.Unlock()
	return b.calls, b.events
}

func (b *e2eBackend) sentinel(name string) (float64, bool) {
	b.mu.Lock()
	defer b.mu.Unlock()
	for k, v := range b.sentinels {
		if strings.HasSuffix(k, name) {
			return v, true
		}
	}
	return 0, false
}

// flushSpy counts flush notifications (the flusher announces a flush before it runs it).
type flushSpy struct {
	stats.NullStatser
	flushes atomic.Int64
}

func (s *flushSpy) NotifyFlush(ctx context.Context, d time.Duration) {
	s.flushes.Add(1)
	s.NullStatser.NotifyFlush(ctx, d)
}
func (s *flushSpy) WithTags(tags gostatsd.Tags) stats.Statser { return s }

type e2eSetup struct {
	Workers int    `json:"workers"`
	Queue   int    `json:"queue"`
	Expiry  string `json:"expiry"` // hour | immediate | never
	NS      string `json:"namespace"`
}

type e2ePipeline struct {
	su      e2eSetup
	be      *e2eBackend
	spy     *flushSpy
	mock    *clock.Mock
	bh      *statsd.BackendHandler
	router  http.Handler
	in      chan []*statsd.Datagram
	cancel  context.CancelFunc
	seq     int
	udpEv   int
	httpEv  int
	flushes int
}

const e2eInterval = 10 * time.Second

const e2eSentinelFlushes = 200

func newE2E(su e2eSetup) (*e2ePipeline, error) {
	p := &e2ePipeline{su: su, be: &e2eBackend{sentinels: map[string]float64{}}, spy: &flushSpy{}}
	var exp time.Duration
	switch su.Expiry {
	case "hour":
		exp = time.Hour
	case "immediate":
		exp = -1
	}
	af := statsd.AggregatorFactoryFunc(func() statsd.Aggregator {
		return statsd.NewMetricAggregator([]float64{90, 50, -25}, exp, exp, exp, exp, gostatsd.TimerSubtypes{}, 10)
	})
	backends := []gostatsd.Backend{p.be}
	p.bh = statsd.NewBackendHandler(backends, 4, su.Workers, su.Queue, af)
	flusher := statsd.NewMetricFlusher(e2eInterval, 0, false, p.bh, backends)
	th := statsd.NewTagHandler(p.bh, gostatsd.Tags{"env:verif"}, nil)
	srv, err := web.NewHttpServer(quietLogger(), th, "verif-e2e", "127.0.0.1:0", false, false, true, false, nil, nil)
	if err != nil {
		return nil, err
	}
	p.router = srv.Router
	p.in = make(chan []*statsd.Datagram)
	parser := statsd.NewDatagramParser(p.in, su.NS, false, 0, th, 0, false, quietLogger())
	p.mock = clock.NewMock(time.Now())
	ctx, cancel := context.WithCancel(stats.NewContext(clock.Context(context.Background(), p.mock), p.spy))
	p.cancel = cancel
	go p.bh.Run(ctx)
	go p.bh.RunMetricsContext(ctx)
	go flusher.Run(ctx)
	go parser.Run(ctx)
	go parser.RunMetricsContext(ctx)
	if !mon.WaitUntil(watchdog/4, func() bool { return p.mock.Len() >= 1 }) { // the flusher registers its ticker asynchronously
		cancel()
		return nil, fmt.Errorf("flusher ticker not registered")
	}
	return p, nil
}

// ---------------------------------------------------------------------------------------------
// legal but unusual bodies

var e2eNames = []string{"users", "lat", "hits", "g.x", "", "a b", "users", "lat"}
var e2eHosts = []string{"", "10.0.0.9", "10.0.0.9", "h1"}
var e2eTagSets = [][]string{nil, {}, {"t:1"}, {"t:1", "u:2"}, {"u:2", "t:1"}, {"gsd_histogram:1_5_10"}, {"t:1", "t:1"}, {"env:verif"}, {""}}
var e2eFloats = []float64{0, 1, -1, 0.5, 1e308, -1e308, 5e-324, math.NaN(), math.Inf(1), math.Inf(-1), math.Copysign(0, -1), math.MaxFloat64, 1 << 53, -(1 << 63), 3, 7, 100}

func pickF(rng *rand.Rand) float64 { return e2eFloats[rng.Intn(len(e2eFloats))] }

// tagKeys are the keys of the per-name tag maps: the forwarder sends FormatTagsKey there, but any string is
// legal, the empty one included; the same tags under two keys must merge downstream.
func tagKey(rng *rand.Rand, tags []string, host string) string {
	switch rng.Intn(5) {
	case 0:
		return ""
	case 1:
		return "k" + fmt.Sprint(rng.Intn(3))
	default:
		return gostatsd.FormatTagsKey(gostatsd.Source(host), gostatsd.Tags(tags))
	}
}

func legalRaw(rng *rand.Rand) (*pb.RawMessageV2, string) {
	m := &pb.RawMessageV2{}
	feature := []string{}
	note := func(s string) { feature = append(feature, s) }
	entries := func() int { return 1 + rng.Intn(3) }
	for i := rng.Intn(3); i > 0; i-- {
		if m.Sets == nil {
			m.Sets = map[string]*pb.SetTagV2{}
		}
		name := e2eNames[rng.Intn(len(e2eNames))]
		tm := &pb.SetTagV2{TagMap: map[string]*pb.RawSetV2{}}
		for j := entries(); j > 0; j-- {
			tags, host := e2eTagSets[rng.Intn(len(e2eTagSets))], e2eHosts[rng.Intn(len(e2eHosts))]
			s := &pb.RawSetV2{Tags: tags, Hostname: host}
			switch rng.Intn(5) {
			case 0:
				note("set-nil-values")
			case 1:
				s.Values = []string{}
				note("set-empty-values")
			case 2:
				s.Values = []string{""}
				note("set-empty-member")
			case 3:
				s.Values = []string{"alice", "alice", "bob"}
			default:
				s.Values = []string{"alice"}
			}
			tm.TagMap[tagKey(rng, tags, host)] = s
		}
		if rng.Intn(10) == 0 {
			tm.TagMap = nil
			note("set-nil-tagmap")
		}
		m.Sets[name] = tm
	}
	for i := rng.Intn(3); i > 0; i-- {
		if m.Timers == nil {
			m.Timers = map[string]*pb.TimerTagV2{}
		}
		name := e2eNames[rng.Intn(len(e2eNames))]
		tm := &pb.TimerTagV2{TagMap: map[string]*pb.RawTimerV2{}}
		for j := entries(); j > 0; j-- {
			tags, host := e2eTagSets[rng.Intn(len(e2eTagSets))], e2eHosts[rng.Intn(len(e2eHosts))]
			t := &pb.RawTimerV2{Tags: tags, Hostname: host}
			switch rng.Intn(7) {
			case 0:
				t.SampleCount = float64(1 + rng.Intn(5))
				note("timer-no-values-positive-count")
			case 1:
				t.Values = []float64{1, 2, 3}
				note("timer-values-zero-count")
			case 2:
				t.Values = []float64{}
				t.SampleCount = -3
				note("timer-negative-count")
			case 3:
				t.Values = []float64{pickF(rng), pickF(rng), pickF(rng), pickF(rng)}
				t.SampleCount = pickF(rng)
				note("timer-odd-floats")
			case 4:
				note("timer-empty")
			case 5:
				t.Values = []float64{float64(rng.Intn(100))}
				t.SampleCount = 1e308
				note("timer-huge-count")
			default:
				n := 1 + rng.Intn(6)
				for k := 0; k < n; k++ {
					t.Values = append(t.Values, float64(rng.Intn(1000))/8)
				}
				t.SampleCount = float64(n)
			}
			tm.TagMap[tagKey(rng, tags, host)] = t
		}
		m.Timers[name] = tm
	}
	for i := rng.Intn(3); i > 0; i-- {
		if m.Counters == nil {
			m.Counters = map[string]*pb.CounterTagV2{}
		}
		tm := &pb.CounterTagV2{TagMap: map[string]*pb.RawCounterV2{}}
		for j := entries(); j > 0; j-- {
			tags, host := e2eTagSets[rng.Intn(len(e2eTagSets))], e2eHosts[rng.Intn(len(e2eHosts))]
			v := []int64{0, 1, -1, math.MaxInt64, math.MinInt64, 42}[rng.Intn(6)]
			tm.TagMap[tagKey(rng, tags, host)] = &pb.RawCounterV2{Tags: tags, Hostname: host, Value: v}
		}
		m.Counters[e2eNames[rng.Intn(len(e2eNames))]] = tm
	}
	for i := rng.Intn(3); i > 0; i-- {
		if m.Gauges == nil {
			m.Gauges = map[string]*pb.GaugeTagV2{}
		}
		tm := &pb.GaugeTagV2{TagMap: map[string]*pb.RawGaugeV2{}}
		for j := entries(); j > 0; j-- {
			tags, host := e2eTagSets[rng.Intn(len(e2eTagSets))], e2eHosts[rng.Intn(len(e2eHosts))]
			tm.TagMap[tagKey(rng, tags, host)] = &pb.RawGaugeV2{Tags: tags, Hostname: host, Value: pickF(rng)}
		}
		m.Gauges[e2eNames[rng.Intn(len(e2eNames))]] = tm
	}
	if len(feature) == 0 {
		return m, "plain"
	}
	return m, feature[rng.Intn(len(feature))]
}

var e2eEnums = []int32{-1, 0, 1, 2, 3, 4, 5, 100, math.MaxInt32, math.MinInt32}

func legalEvent(rng *rand.Rand) (*pb.EventV2, string) {
	e := &pb.EventV2{Title: []string{"", "t", "deploy", strings.Repeat("T", 3000)}[rng.Intn(4)], Text: []string{"", "x", strings.Repeat("line\n", 500)}[rng.Intn(3)],
		DateHappened: []int64{0, 1, -1, math.MaxInt64, math.MinInt64, 1700000000}[rng.Intn(6)], Hostname: e2eHosts[rng.Intn(len(e2eHosts))],
		AggregationKey: []string{"", "k"}[rng.Intn(2)], SourceTypeName: []string{"", "s"}[rng.Intn(2)], Tags: e2eTagSets[rng.Intn(len(e2eTagSets))], SourceIP: []string{"", "1.2.3.4", "not an ip"}[rng.Intn(3)]}
	p, t := e2eEnums[rng.Intn(len(e2eEnums))], e2eEnums[rng.Intn(len(e2eEnums))]
	e.Priority, e.Type = pb.EventV2_EventPriority(p), pb.EventV2_AlertType(t)
	return e, fmt.Sprintf("event-pri%d-type%d", clampEnum(p), clampEnum(t))
}

func clampEnum(v int32) int32 {
	if v < -1 {
		return -2
	}
	if v > 5 {
		return 6
	}
	return v
}

var e2eLines = []string{
	"users:alice|s", "users:bob|s|#t:1", "users:|s", "users:carol|s|#t:1,u:2", "users:dave|s|#u:2,t:1",
	"lat:5|ms", "lat:1|ms|@0.1", "lat:7.5|ms|#t:1", "lat:3|h|#gsd_histogram:1_5_10", "lat:inf|ms", "lat:-inf|ms|#t:1", "lat:1e308|ms", "lat:2|ms|@5e-324",
	"hits:1|c", "hits:-5|c|#t:1", "hits:1e308|c", "hits:1|c|@0.001", "hits:9223372036854775807|c",
	"g.x:3|g", "g.x:-inf|g|#t:1", "g.x:1e-320|g", "a b:1|c", "a b:x|s",
	"_e{1,1}:a|b", "_e{0,0}:|", "_e{5,4}:title|text|p:low|t:error|#t:1", "_e{1,1}:a|b|d:9223372036854775807",
}

// ---------------------------------------------------------------------------------------------
// steps

func (p *e2ePipeline) post(r *mon.Run, g, step int, path, kind string, msg []byte, rng *rand.Rand) {
	hc := &httpCase{kind: kind, method: "POST", path: path, body: msg}
	switch rng.Intn(3) {
	case 0:
		hc.kind += "/raw"
	case 1:
		hc.body, hc.encoding = zlibOf(msg, zlib.BestSpeed), strp("deflate")
		hc.kind += "/zlib"
	default:
		hc.body, hc.encoding = lz4Of(msg), strp("lz4")
		hc.kind += "/lz4"
	}
	r.Case("phase=e2e idx=%d step=%d http %s %s encoding=%s body=%x", g, step, path, kind, encName(hc.encoding), msg)
	req := httptest.NewRequest(hc.method, hc.path, bytes.NewReader(hc.body))
	if hc.encoding != nil {
		req.Header.Set("Content-Encoding", *hc.encoding)
	}
	w := &statusWriter{hdr: http.Header{}}
	mk := func() interface{} { rc := hc.replay(g); rc.Phase = "e2e"; return rc } // replayed by group index
	if guard(r, "e2e-http-panic", mk, func() { p.router.ServeHTTP(w, req) }) {
		return
	}
	r.Event("e2e_http_requests", 1)
	switch {
	case w.code == 0:
		r.Violation("http-no-status", fmt.Sprintf("e2e: POST %s (%s) returned without a status", path, kind), mk())
	case w.code < 200 || w.code > 299:
		r.Violation("e2e-legal-body-rejected", fmt.Sprintf("POST %s with a well-formed %s message (%s) answered %d", path, strings.TrimPrefix(path, "/v2/"), kind, w.code), mk())
	case path == "/v2/event":
		p.httpEv++
	}
}

// udp pushes one datagram through the parser goroutine and returns once it has been processed (fence batch).
func (p *e2ePipeline) udp(r *mon.Run, g, step int, msg string, ip string) bool {
	r.Case("phase=e2e idx=%d step=%d udp from=%s datagram=%q", g, step, ip, msg)
	buf := []byte(msg)
	dg := &statsd.Datagram{IP: gostatsd.Source(ip), Msg: buf, Timestamp: gostatsd.NanoNow(), DoneFunc: func() {
		for i := range buf {
			buf[i] = 0xAA
		}
	}}
	t := time.NewTimer(watchdog)
	defer t.Stop()
	for _, b := range [][]*statsd.Datagram{{dg}, nil} {
		select {
		case p.in <- b:
		case <-t.C:
			return false
		}
	}
	r.Event("e2e_udp_datagrams", 1)
	return true
}

// flush fires one tick of the flusher's mock ticker and waits, on logical conditions, for that flush to have been
// announced and for every worker's backend call.
func (p *e2ePipeline) flush(r *mon.Run, g int, what string) bool {
	r.Case("phase=e2e idx=%d step=flush (%s) %+v", g, what, p.su)
	n0 := p.spy.flushes.Load()
	calls0, _ := p.be.state()
	p.mock.Add(e2eInterval)
	ok := mon.WaitUntil(watchdog, func() bool {
		calls, _ := p.be.state()
		return p.spy.flushes.Load() > n0 && calls >= calls0+p.su.Workers
	})
	if ok {
		p.flushes++
		r.Event("e2e_flushes", 1)
	}
	return ok
}

// group runs one group: a handful of bodies / datagrams, then the sentinel and the flushes that must bring it out.
// It returns false when the pipeline is unusable.
func (p *e2ePipeline) group(r *mon.Run, g int, rng *rand.Rand) bool {
	steps := 3 + rng.Intn(8)
	features := map[string]bool{}
	for s := 0; s < steps; s++ {
		switch k := rng.Intn(10); {
		case k < 5:
			m, f := legalRaw(rng)
			msg, err := detMarshal(m)
			if err != nil {
				continue
			}
			features[f] = true
			p.post(r, g, s, "/v2/raw", f, msg, rng)
		case k < 6:
			e, f := legalEvent(rng)
			msg, err := detMarshal(e)
			if err != nil {
				continue
			}
			features[f] = true
			p.post(r, g, s, "/v2/event", f, msg, rng)
		case k < 9:
			n := 1 + rng.Intn(4)
			var lines []string
			for i := 0; i < n; i++ {
				l := e2eLines[rng.Intn(len(e2eLines))]
				if strings.HasPrefix(l, "_e") {
					p.udpEv++
				}
				lines = append(lines, l)
			}
			features["udp"] = true
			if !p.udp(r, g, s, strings.Join(lines, "\n"), e2eHosts[1+rng.Intn(2)]) {
				r.Violation("e2e-pipeline-wedged", fmt.Sprintf("group %d: the parser did not take a datagram within %v (setup %+v)", g, watchdog, p.su), e2eReplay(g, p.su))
				return false
			}
		default:
			// idle re-flush: whatever persisted is aggregated, sent and reset again without new input
			features["idle-flush"] = true
			if !p.flush(r, g, "idle") && !p.flush(r, g, "idle, second attempt") {
				r.Violation("e2e-pipeline-wedged", fmt.Sprintf("group %d: a flush tick was not followed by the flush's backend calls within %v, twice (setup %+v)", g, watchdog, p.su), e2eReplay(g, p.su))
				return false
			}
		}
	}
	// sentinel: later input is still processed, all the way to a flush
	p.seq++
	name := fmt.Sprintf("verif.e2e.s%d", p.seq)
	want := float64(p.seq)
	if g%2 == 0 {
		msg, _ := detMarshal(&pb.RawMessageV2{Gauges: map[string]*pb.GaugeTagV2{name: {TagMap: map[string]*pb.RawGaugeV2{"": {Value: want}}}}})
		p.post(r, g, steps, "/v2/raw", "sentinel", msg, rng)
	} else if !p.udp(r, g, steps, fmt.Sprintf("%s:%d|g", name, p.seq), "10.0.0.7") {
		r.Violation("e2e-pipeline-wedged", fmt.Sprintf("group %d: the parser did not take the sentinel datagram within %v (setup %+v)", g, watchdog, p.su), e2eReplay(g, p.su))
		return false
	}
	found := false
	for attempt := 0; attempt < e2eSentinelFlushes && !found; attempt++ {
		// A worker picks at random between its queue of maps and the flush command whenever both are ready, so every
		// flush lets it consume a geometrically distributed number of the maps that are queued ahead of the sentinel
		// (mean 1; between flushes it drains freely). 200 flushes therefore is a logical bound for any backlog a group
		// can build up, not a time bound.
		if !p.flush(r, g, fmt.Sprintf("sentinel %s, attempt %d", name, attempt)) {
			if attempt > 0 || !p.flush(r, g, "second attempt") {
				r.Violation("e2e-pipeline-wedged", fmt.Sprintf("group %d: a flush tick was not followed by the flush's backend calls within %v, twice (setup %+v)", g, watchdog, p.su), e2eReplay(g, p.su))
				return false
			}
		}
		var v float64
		if v, found = p.be.sentinel(name); found && v != want {
			r.Violation("e2e-sentinel-value", fmt.Sprintf("group %d: sentinel %s flushed with value %v, sent %v", g, name, v, want), e2eReplay(g, p.su))
		}
	}
	if !found {
		r.Violation("e2e-sentinel-not-flushed", fmt.Sprintf("group %d: the datapoint %s sent after the group did not come out of any of the next %d flushes (setup %+v)", g, name, e2eSentinelFlushes, p.su), e2eReplay(g, p.su))
	}
	// events: every accepted event reaches the backend
	done := make(chan struct{})
	go func() { p.bh.WaitForEvents(); close(done) }()
	t := time.NewTimer(watchdog)
	select {
	case <-done:
		t.Stop()
	case <-t.C:
		r.Violation("e2e-pipeline-wedged", fmt.Sprintf("group %d: event dispatch did not finish within %v (setup %+v)", g, watchdog, p.su), e2eReplay(g, p.su))
		return false
	}
	r.Eval(1)
	for f := range features {
		r.Nontrivial(fmt.Sprintf("e2e|%s|w%d|%s", f, p.su.Workers, p.su.Expiry))
	}
	if r.WantSample() && g%16 == 3 {
		fs := []string{}
		for f := range features {
			fs = append(fs, f)
		}
		calls, events := p.be.state()
		r.Sample(map[string]interface{}{"phase": "e2e", "setup": p.su, "group": g, "features": fs, "flushes": p.flushes, "backend_calls": calls, "events_at_backend": events})
	}
	return true
}

// e2eReplay is the witness of a group: the whole run up to that group is re-played from the seed (the state that
// makes a step fatal was planted by earlier steps).
func e2eReplay(g int, su e2eSetup) *replayCase {
	return &replayCase{Phase: "e2e", Kind: fmt.Sprintf("%+v", su), Index: g}
}

// phaseE2E runs the groups 0..n-1 (upTo >= 0: the groups 0..upTo, for the replay of a crash — the state that
// makes a step fatal was planted by earlier steps).
func phaseE2E(r *mon.Run, upTo int) {
	shard, _ := r.Shard()
	su := e2eSetup{Workers: 2 + shard%3, Queue: []int{1, 8, 100}[shard%3], Expiry: []string{"hour", "immediate", "never"}[(shard/3)%3], NS: []string{"", "ns"}[shard%2]}
	p, err := newE2E(su)
	if err != nil {
		r.Inconclusive("e2e-pipeline-not-constructed")
		return
	}
	defer p.cancel()
	rng := r.Rand("e2e")
	n := r.N(600, 12000)
	if upTo >= 0 {
		n = upTo + 1
	}
	for g := 0; g < n; g++ {
		if !p.group(r, g, rng) {
			r.Inconclusive("e2e-phase-abandoned")
			return
		}
	}
	_, events := p.be.state()
	if events != p.httpEv+p.udpEv {
		r.Violation("e2e-events-lost", fmt.Sprintf("%d events accepted over HTTP and %d event lines sent over UDP, %d reached the backend (setup %+v)", p.httpEv, p.udpEv, events, su), e2eReplay(n-1, su))
	}
	r.Event("e2e_events_at_backend", events)
}
