//go:build verif

// How a request body reaches the server is part of "any request body": with a declared length, with an
// unknown length (chunked transfer coding), or with a Content-Length that does not match what is sent.
package c03

import (
	"bufio"
	"bytes"
	"errors"
	"fmt"
	"io"
	"net"
	"net/http"
	"os"
	"time"
)

var transferModes = []string{"length", "chunked", "length", "declared-longer", "chunked", "declared-shorter"}

// unsized hides the length of a body from net/http, which then uses the chunked transfer coding.
type unsized struct{ io.Reader }

// transfer sends hc to the server at base ("http://host:port") in the given mode and returns the status of the
// (first) response. timedOut reports that the generous deadline passed, which is a watchdog, not a verdict.
func transfer(client *http.Client, base string, hc *httpCase, mode string) (status int, timedOut bool, err error) {
	switch mode {
	case "length", "chunked":
		var body io.Reader = bytes.NewReader(hc.body)
		if mode == "chunked" {
			body = unsized{body}
		}
		req, e := http.NewRequest(hc.method, base+hc.path, body)
		if e != nil {
			return 0, false, nil
		}
		if hc.encoding != nil {
			req.Header.Set("Content-Encoding", *hc.encoding)
		}
		resp, e := client.Do(req)
		if e != nil {
			var ne net.Error
			return 0, errors.As(e, &ne) && ne.Timeout(), e
		}
		_, _ = io.Copy(io.Discard, resp.Body)
		_ = resp.Body.Close()
		return resp.StatusCode, false, nil
	}
	// a Content-Length that lies: written by hand, then the sending side is closed
	declared := len(hc.body) + 1 + len(hc.body)%7
	if mode == "declared-shorter" {
		declared = len(hc.body) / 2
	}
	conn, e := net.Dial("tcp", base[len("http://"):])
	if e != nil {
		return 0, false, nil // the harness could not connect: nothing was asked
	}
	defer conn.Close()
	_ = conn.SetDeadline(time.Now().Add(watchdog))
	var b bytes.Buffer
	fmt.Fprintf(&b, "%s %s HTTP/1.1\r\nHost: verif\r\nConnection: close\r\nContent-Length: %d\r\n", hc.method, hc.path, declared)
	if hc.encoding != nil {
		fmt.Fprintf(&b, "Content-Encoding: %s\r\n", *hc.encoding)
	}
	b.WriteString("\r\n")
	b.Write(hc.body)
	if _, e := conn.Write(b.Bytes()); e != nil {
		// the server may answer and close before everything is written (declared-shorter); the answer is what counts
		_ = e
	}
	if tc, ok := conn.(*net.TCPConn); ok {
		_ = tc.CloseWrite()
	}
	resp, e := http.ReadResponse(bufio.NewReader(conn), nil)
	if e != nil {
		return 0, errors.Is(e, os.ErrDeadlineExceeded), e
	}
	_, _ = io.Copy(io.Discard, resp.Body)
	_ = resp.Body.Close()
	return resp.StatusCode, false, nil
}
