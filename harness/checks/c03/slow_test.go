//go:build verif

// C03, held requests — /v2/raw and /v2/event hand their data to the pipeline before they write 202, so a request can
// be held by the pipeline for as long as the pipeline is busy: an aggregator whose queue is full while a backend
// takes its time with a flush, an event semaphore behind a slow event sink. "Each request is answered with an
// HTTP status" has no time limit in it: a request that was accepted must get its status line when the pipeline lets
// go, however long that took. This scenario makes the hold last 11-13 s of REAL time (server-side limits in the
// 5-10 s range only show then) on the real statsd.Server over real TCP; it runs concurrently with the other phases,
// one per chosen shard, so the run does not get longer.
package c03

import (
	"context"
	"fmt"
	"net"
	"net/http"
	"strings"
	"sync"
	"sync/atomic"
	"time"

	"github.com/spf13/viper"

	"github.com/atlassian/gostatsd"
	"github.com/atlassian/gostatsd/pb"
	"github.com/atlassian/gostatsd/pkg/statsd"

	"verif/mon"
	"verif/netx"
)

// slowBackend blocks for hold inside the flush that carries the trigger gauge and inside the event that carries the
// trigger title — once each.
type slowBackend struct {
	hold         time.Duration
	holdingFlush atomic.Bool
	holdingEvent atomic.Bool
	flushHeld    atomic.Bool
	eventHeld    atomic.Bool
	mu           sync.Mutex
	gauges       map[string]bool
	events       map[string]bool
}

func (b *slowBackend) Name() string { return "verif-slow" }
func (b *slowBackend) SendMetricsAsync(ctx context.Context, mm *gostatsd.MetricMap, cb gostatsd.SendCallback) {
	trigger := false
	var found []string
	mm.Gauges.Each(func(name, tk string, g gostatsd.Gauge) {
		if strings.HasSuffix(name, "verif.slow.trigger") {
			trigger = true
		}
		if strings.Contains(name, "verif.slow.") {
			found = append(found, name)
		}
	})
	b.mu.Lock()
	for _, f := range found {
		b.gauges[f] = true
	}
	b.mu.Unlock()
	if trigger && b.flushHeld.CompareAndSwap(false, true) {
		b.holdingFlush.Store(true)
		time.Sleep(b.hold) // the slow peer: real time on purpose
		b.holdingFlush.Store(false)
	}
	cb(nil)
}
func (b *slowBackend) SendEvent(ctx context.Context, e *gostatsd.Event) error {
	if e.Title == "verif-slow-trigger" && b.eventHeld.CompareAndSwap(false, true) {
		b.holdingEvent.Store(true)
		time.Sleep(b.hold)
		b.holdingEvent.Store(false)
	}
	b.mu.Lock()
	b.events[e.Title] = true
	b.mu.Unlock()
	return nil
}

type heldResult struct {
	what   string
	status int
	err    error
	timed  bool
	held   time.Duration
}

// slowScenario runs one server whose only backend holds a flush and an event for 11-13 s while requests are in flight.
func slowScenario(r *mon.Run, k int) {
	rng := r.RandGlobal(fmt.Sprintf("slow-%d", k))
	hold := 11*time.Second + time.Duration(rng.Intn(2000))*time.Millisecond
	be := &slowBackend{hold: hold, gauges: map[string]bool{}, events: map[string]bool{}}
	addr := netx.FreeTCP()
	cfgText := fmt.Sprintf("http-servers: [\"ingest\"]\nhttp:\n  ingest:\n    address: %q\n    enable-ingestion: true\n", addr)
	v := viper.New()
	v.SetConfigType("yaml")
	if err := v.ReadConfig(strings.NewReader(cfgText)); err != nil {
		r.Inconclusive("slow-bad-config-text")
		return
	}
	workers := 1 + rng.Intn(2)
	srv := &statsd.Server{
		Backends:              []gostatsd.Backend{be},
		ExpiryIntervalCounter: time.Minute, ExpiryIntervalGauge: time.Minute, ExpiryIntervalSet: time.Minute, ExpiryIntervalTimer: time.Minute,
		FlushInterval: 20 * time.Millisecond, MaxReaders: 1, MaxParsers: 1 + rng.Intn(2), MaxWorkers: workers, MaxQueueSize: 1, MaxConcurrentEvents: 1,
		InternalNamespace: "statsd", StatserType: gostatsd.StatserNull, PercentThreshold: []float64{90}, ReceiveBatchSize: 1, ServerMode: "standalone",
		DisableInternalEvents: true, Viper: v,
	}
	replay := &replayCase{Phase: "slow", Kind: fmt.Sprintf("hold=%v workers=%d", hold, workers), Index: k}
	r.Case("phase=slow idx=%d hold=%v workers=%d addr=%s", k, hold, workers, addr)
	conn := &srvConn{ch: make(chan srvPkt), closed: make(chan struct{})}
	ctx, cancel := context.WithCancel(context.Background())
	done := make(chan struct{})
	go func() {
		defer close(done)
		_ = srv.RunWithCustomSocket(ctx, func() (net.PacketConn, error) { return conn, nil })
	}()
	defer func() {
		cancel()
		select {
		case <-done:
		case <-time.After(serverWatchdog):
			r.Inconclusive("slow-server-did-not-stop")
		}
	}()
	if !mon.WaitUntil(serverWatchdog, func() bool {
		c, err := net.DialTimeout("tcp", addr, time.Second)
		if err == nil {
			_ = c.Close()
		}
		return err == nil
	}) {
		r.Inconclusive("slow-http-not-listening")
		return
	}
	base := "http://" + addr
	client := &http.Client{Timeout: watchdog, Transport: &http.Transport{DisableKeepAlives: true}}
	gaugeBody := func(name string) []byte {
		msg, _ := detMarshal(&pb.RawMessageV2{Gauges: map[string]*pb.GaugeTagV2{name: {TagMap: map[string]*pb.RawGaugeV2{"": {Value: 1}}}}})
		return msg
	}
	post := func(what, path string, body []byte, mode string) heldResult {
		t0 := time.Now()
		status, timed, err := transfer(client, base, &httpCase{kind: what, method: "POST", path: path, body: body}, mode)
		return heldResult{what: what, status: status, err: err, timed: timed, held: time.Since(t0)}
	}
	// the two triggers: answered at once (the event is sent asynchronously, the gauge waits for the next flush)
	for _, res := range []heldResult{post("trigger gauge", "/v2/raw", gaugeBody("verif.slow.trigger"), "length"), func() heldResult {
		msg, _ := detMarshal(&pb.EventV2{Title: "verif-slow-trigger"})
		return post("trigger event", "/v2/event", msg, "length")
	}()} {
		if res.err != nil || res.status < 200 || res.status > 299 {
			r.Inconclusive("slow-trigger-not-accepted")
			return
		}
	}
	if !mon.WaitUntil(serverWatchdog, func() bool { return be.holdingFlush.Load() && be.holdingEvent.Load() }) {
		r.Inconclusive("slow-backend-not-holding")
		return
	}
	// while the backend holds: metrics for every worker's queue and beyond, and events behind the one-slot semaphore
	var wg sync.WaitGroup
	results := make(chan heldResult, 32)
	n := 0
	for i := 0; i < 4+2*workers; i++ {
		n++
		wg.Add(1)
		go func(i int) {
			defer wg.Done()
			// many names per body, so that every worker gets a share of every body
			m := &pb.RawMessageV2{Gauges: map[string]*pb.GaugeTagV2{}}
			for j := 0; j < 12; j++ {
				m.Gauges[fmt.Sprintf("verif.slow.k%dr%dn%d", k, i, j)] = &pb.GaugeTagV2{TagMap: map[string]*pb.RawGaugeV2{"": {Value: float64(j)}}}
			}
			msg, _ := detMarshal(m)
			results <- post(fmt.Sprintf("metrics %d", i), "/v2/raw", msg, []string{"length", "chunked"}[i%2])
		}(i)
	}
	for i := 0; i < 3; i++ {
		n++
		wg.Add(1)
		go func(i int) {
			defer wg.Done()
			msg, _ := detMarshal(&pb.EventV2{Title: fmt.Sprintf("verif-slow-k%de%d", k, i), Text: "x"})
			results <- post(fmt.Sprintf("event %d", i), "/v2/event", msg, []string{"length", "chunked"}[i%2])
		}(i)
	}
	wg.Wait()
	close(results)
	over10, answered := 0, 0
	for res := range results {
		switch {
		case res.timed:
			r.Inconclusive("slow-request-watchdog")
		case res.err != nil:
			r.Violation("http-connection-without-status", fmt.Sprintf("real server, backend holding a flush and an event for %v: POST %s was held %.1f s by the pipeline and then got no status: %v", hold, res.what, res.held.Seconds(), res.err), replay)
		case res.status < 200 || res.status > 299:
			r.Violation("e2e-legal-body-rejected", fmt.Sprintf("real server, backend holding for %v: POST %s (well-formed) answered %d after %.1f s", hold, res.what, res.status, res.held.Seconds()), replay)
		default:
			answered++
		}
		if res.held > 10*time.Second {
			over10++
		}
	}
	r.Eval(1)
	r.Event("slow_scenarios", 1)
	r.Event("slow_requests", n)
	r.Event("slow_requests_answered", answered)
	r.Event("slow_requests_held_over_10s", over10)
	if over10 > 0 {
		r.Nontrivial(fmt.Sprintf("slow|workers=%d|held>10s", workers))
	} else {
		r.Inconclusive("slow-nothing-was-held")
	}
}

// startSlow runs the scenarios of this shard in the background; the returned function waits for them.
func startSlow(r *mon.Run) (wait func()) {
	shard, shards := r.Shard()
	per := 0
	if r.Thorough() {
		per = 2
	} else if shard < 2 {
		per = 1 // two per quick run
	}
	done := make(chan struct{})
	go func() {
		defer close(done)
		for i := 0; i < per; i++ {
			slowScenario(r, i*shards+shard)
		}
	}()
	return func() { <-done }
}
