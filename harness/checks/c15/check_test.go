//go:build verif

// C15 — the forwarder delivers every batch exactly once or reports it dropped.
//
// A real HttpForwarderHandlerV2 is fed by concurrent dispatchers with maps built by the real lexer
// from generated lines (unique ids as timer values / set members, small-integer counters). Its HTTP
// client's transport is a scripted RoundTripper that records every attempt (body hash, decoded ids,
// headers, logical stamps) and answers per script. Offline oracles over the attempt log, the dispatch
// log and the http.forwarder.* counters: id conservation, attempt sequence fail*·success?, counter
// consistency, flush ordering (manual mode), header/series partition (dynamic headers).
package c15

import (
	"bytes"
	"compress/zlib"
	"context"
	"crypto/sha1"
	"errors"
	"fmt"
	"io"
	"math/rand"
	"net/http"
	"runtime"
	"sort"
	"strings"
	"sync"
	"sync/atomic"
	"testing"
	"time"

	"github.com/sirupsen/logrus"
	"github.com/spf13/viper"
	"github.com/tilinna/clock"
	"google.golang.org/protobuf/proto"

	"github.com/atlassian/gostatsd"
	"github.com/atlassian/gostatsd/pb"
	"github.com/atlassian/gostatsd/pkg/stats"
	"github.com/atlassian/gostatsd/pkg/statsd"
	"github.com/atlassian/gostatsd/pkg/transport"

	"verif/mon"
)

// ---------------------------------------------------------------------------------------------
// spy statser

type spyStatser struct {
	stats.Statser
	mu       sync.Mutex
	reported map[string]uint64
	calls    map[string]int
}

func newSpy() *spyStatser {
	return &spyStatser{Statser: stats.NewNullStatser(), reported: map[string]uint64{}, calls: map[string]int{}}
}

func (s *spyStatser) Report(name string, value *uint64, tags gostatsd.Tags) {
	v := atomic.SwapUint64(value, 0)
	s.mu.Lock()
	s.reported[name] += v
	s.calls[name]++
	s.mu.Unlock()
}
func (s *spyStatser) get(name string) uint64 {
	s.mu.Lock()
	defer s.mu.Unlock()
	return s.reported[name]
}
func (s *spyStatser) ncalls(name string) int {
	s.mu.Lock()
	defer s.mu.Unlock()
	return s.calls[name]
}
func (s *spyStatser) WithTags(tags gostatsd.Tags) stats.Statser { return s }

// ---------------------------------------------------------------------------------------------
// scripted upstream

type attempt struct {
	Begin   int64  `json:"begin"`
	End     int64  `json:"end"`
	Outcome string `json:"outcome"`
	at      time.Time
}

type seriesRec struct {
	Type    int
	Name    string
	TagsKey string
	Tags    []string
}

type bodyRec struct {
	Hash     string
	Nop      bool
	IDs      []string // "t<id>" timer values, "s<member>" set members
	Counters map[string]int64
	Series   []seriesRec
	Header   string // value of the dynamic header "Tenant"
	HasHdr   bool
	Script   []string
	Attempts []*attempt
	First    int64
	firstAt  time.Time
	lastAt   time.Time
}

type errReader struct{}

func (errReader) Read([]byte) (int, error) { return 0, io.ErrUnexpectedEOF }

func good(outcome string) bool { return outcome == "ok" || outcome == "slow" || outcome == "okbad" }

func (b *bodyRec) succeeded() bool {
	for _, a := range b.Attempts {
		if good(a.Outcome) {
			return true
		}
	}
	return false
}

type upstream struct {
	r        *mon.Run
	mu       sync.Mutex
	bodies   map[string]*bodyRec
	order    []*bodyRec
	rng      *rand.Rand
	choose   func(b *bodyRec, rng *rand.Rand) []string
	bad      []string // protocol-level problems noticed while serving
	inflight atomic.Int64
	hdr      string // canonical form of the dynamic header name
}

func resp(status int, req *http.Request) *http.Response {
	return &http.Response{StatusCode: status, Status: fmt.Sprintf("%d x", status), Proto: "HTTP/1.1", ProtoMajor: 1, ProtoMinor: 1,
		Header: http.Header{}, Body: io.NopCloser(strings.NewReader("")), Request: req}
}

func (u *upstream) note(format string, a ...interface{}) {
	if len(u.bad) < 10 {
		u.bad = append(u.bad, fmt.Sprintf(format, a...))
	}
}

func decodeBody(raw []byte, enc string) (*pb.RawMessageV2, error) {
	switch enc {
	case "", "identity":
	case "deflate":
		zr, err := zlib.NewReader(bytes.NewReader(raw))
		if err != nil {
			return nil, err
		}
		raw, err = io.ReadAll(zr)
		if err != nil {
			return nil, err
		}
	default:
		return nil, fmt.Errorf("unexpected content-encoding %q", enc)
	}
	var msg pb.RawMessageV2
	if err := proto.Unmarshal(raw, &msg); err != nil {
		return nil, err
	}
	return &msg, nil
}

func (u *upstream) RoundTrip(req *http.Request) (*http.Response, error) {
	u.inflight.Add(1)
	defer u.inflight.Add(-1)
	begin := u.r.Stamp()
	raw, _ := io.ReadAll(req.Body)
	_ = req.Body.Close()
	sum := sha1.Sum(append([]byte(req.Header.Get(u.hdr)+"\x00"), raw...))
	hash := fmt.Sprintf("%x", sum[:8])
	now := time.Now()

	u.mu.Lock()
	b, ok := u.bodies[hash]
	if !ok {
		b = &bodyRec{Hash: hash, Counters: map[string]int64{}, First: begin, firstAt: now}
		_, b.HasHdr = req.Header[u.hdr]
		b.Header = req.Header.Get(u.hdr)
		if req.URL.Path != "/v2/raw" || req.Method != "POST" {
			u.note("unexpected request %s %s", req.Method, req.URL.Path)
		}
		for h := range req.Header {
			switch h {
			case "Content-Type", "User-Agent", "Content-Encoding", u.hdr, "Content-Length", "Accept-Encoding":
			default:
				u.note("unexpected request header %q", h)
			}
		}
		msg, err := decodeBody(raw, req.Header.Get("Content-Encoding"))
		if err != nil {
			u.note("undecodable body: %v", err)
		} else {
			for name, tm := range msg.Timers {
				for tk, t := range tm.TagMap {
					b.Series = append(b.Series, seriesRec{2, name, tk, t.Tags})
					for _, v := range t.Values {
						b.IDs = append(b.IDs, fmt.Sprintf("t%.0f", v))
					}
				}
			}
			for name, tm := range msg.Sets {
				for tk, s := range tm.TagMap {
					b.Series = append(b.Series, seriesRec{4, name, tk, s.Tags})
					for _, v := range s.Values {
						b.IDs = append(b.IDs, "s"+v)
					}
				}
			}
			for name, tm := range msg.Counters {
				for tk, c := range tm.TagMap {
					b.Series = append(b.Series, seriesRec{1, name, tk, c.Tags})
					b.Counters[name+"|"+tk] += c.Value
				}
			}
			for name, tm := range msg.Gauges {
				for tk, g := range tm.TagMap {
					b.Series = append(b.Series, seriesRec{3, name, tk, g.Tags})
				}
			}
		}
		b.Nop = len(b.Series) == 0
		if b.Nop && len(u.order) > 0 {
			// only the priming request is empty; a later empty body is a retry that lost its payload (or a
			// flush of nothing, which the forwarder never posts)
			u.note("empty request body after the priming request (request #%d)", len(u.order)+1)
		}
		if b.Nop {
			b.Script = []string{"ok"}
		} else {
			b.Script = u.choose(b, u.rng)
		}
		u.bodies[hash] = b
		u.order = append(u.order, b)
	}
	idx := len(b.Attempts)
	outcome := b.Script[len(b.Script)-1]
	if idx < len(b.Script) {
		outcome = b.Script[idx]
	}
	a := &attempt{Begin: begin, Outcome: outcome, at: now}
	b.Attempts = append(b.Attempts, a)
	u.mu.Unlock()

	var (
		res *http.Response
		err error
	)
	switch outcome {
	case "ok":
		res = resp(202, req)
	case "slow":
		for i := 0; i < 200; i++ {
			runtime.Gosched()
		}
		time.Sleep(2 * time.Millisecond) // latency, not synchronisation
		res = resp(202, req)
	case "okbad":
		// the upstream accepted the batch (2xx) but the response body cannot be read to its end
		res = resp(202, req)
		res.Body = io.NopCloser(io.MultiReader(strings.NewReader("accepted"), errReader{}))
		res.ContentLength = 64
	case "500":
		res = resp(500, req)
	case "400":
		res = resp(400, req)
	default: // "conn"
		err = errors.New("scripted: connection refused")
	}
	u.mu.Lock()
	a.End = u.r.Stamp()
	b.lastAt = time.Now()
	u.mu.Unlock()
	return res, err
}

func (u *upstream) snapshot() []*bodyRec {
	u.mu.Lock()
	defer u.mu.Unlock()
	return append([]*bodyRec(nil), u.order...)
}

// ---------------------------------------------------------------------------------------------
// workload

type config struct {
	Mode        string `json:"mode"` // manual | timer | scripted
	Exec        int    `json:"exec"`
	Dispatchers int    `json:"dispatchers"`
	Slots       int    `json:"slots"`
	MaxRequests int    `json:"max_requests"`
	Merge       int    `json:"concurrent_merge"`
	Dyn         bool   `json:"dynamic_headers"`
	Faults      string `json:"faults"`    // none | random
	WindowMS    int    `json:"window_ms"` // -1 = retries disabled
	BadUTF8     bool   `json:"bad_utf8_client"`
	Compress    bool   `json:"compress"`
	PerDisp     int    `json:"dispatches_per_dispatcher"`
	HoldSlot    bool   `json:"hold_slot_across_flush"`
	// DynName is the configured dynamic header (= tag) name, "" = "tenant". FromConfig builds the forwarder
	// from configuration text through NewHttpForwarderHandlerV2FromViper instead of from Go arguments.
	DynName    string `json:"dynamic_header_name,omitempty"`
	FromConfig bool   `json:"from_configuration_text,omitempty"`
}

func (c config) dynName() string {
	if c.DynName == "" {
		return "tenant"
	}
	return c.DynName
}

type dispatchRec struct {
	ids      []string
	counters map[string]int64
	returned int64 // stamp after DispatchMetricMap returned
	client   int
}

var tenants = []string{"", "a", "b", "c_d"}

// dynNames are configured dynamic header names: the name is both the tag name to match and the header to set
var dynNames = []string{"tenant", "Region", "x-Tenant-Id", "SERVICE", "tenant"}

// buildMap lexes generated lines with the real lexer and folds them into a MetricMap like the parser does.
func buildMap(lx *statsd.VerifLexer, rng *rand.Rand, cfg config, client int, idc *atomic.Int64, badUTF8 bool, tenantPool []string) (*gostatsd.MetricMap, *dispatchRec, error) {
	mm := gostatsd.NewMetricMap(false)
	rec := &dispatchRec{counters: map[string]int64{}, client: client}
	n := 1 + rng.Intn(12)
	// Every dynamic-header group of a dispatch carries at least one unique id, so that no two request bodies
	// are ever byte-identical (payloads have no timestamps: a group holding only a gauge could otherwise
	// legitimately repeat and look like a re-send).
	hasID := map[string]bool{}
	var missing []string
	for i := 0; i < n || len(missing) > 0; i++ {
		tenant := tenantPool[rng.Intn(len(tenantPool))]
		forceID := false
		if i >= n {
			tenant, missing, forceID = missing[0], missing[1:], true
		}
		tags := []string{}
		dn := cfg.dynName()
		if tenant != "" {
			tags = append(tags, dn+":"+tenant)
		}
		if rng.Intn(2) == 0 {
			// "tenantx:9" / "tenant" share a prefix with the dynamic header name but must not select a header
			// none of these may select a header: only a tag whose name is exactly "tenant" does
			tags = append(tags, []string{"env:prod", "zone:x", "plain", dn + "x:9", dn, "sub" + dn + ":q", "x:" + dn + ":y", "my" + dn + ":z:1"}[rng.Intn(8)])
		}
		var line string
		s := rng.Intn(3)
		typ := rng.Intn(4)
		if forceID {
			typ = 2
		}
		if typ == 1 || typ == 2 {
			hasID[tenant] = true
		} else if !hasID[tenant] {
			hasID[tenant] = false
		}
		if i == n-1 {
			for t, ok := range hasID {
				if !ok {
					missing = append(missing, t)
				}
			}
			sort.Strings(missing)
		}
		switch typ {
		case 0:
			v := rng.Intn(21) - 5
			name := fmt.Sprintf("c%d", s)
			line = fmt.Sprintf("%s:%d|c", name, v)
			sorted := append([]string(nil), tags...)
			sort.Strings(sorted)
			key := strings.Join(sorted, ",")
			rec.counters[name+"|"+key+",s:10.0.0."+fmt.Sprint(client)] += int64(v)
		case 1:
			id := idc.Add(1)
			t := append([]string(nil), tags...)
			if badUTF8 && rng.Intn(3) == 0 {
				t = append(t, "k:\xff\xfe")
			}
			line = fmt.Sprintf("t%d:%d|ms|@0.5", s, id)
			rec.ids = append(rec.ids, fmt.Sprintf("t%d", id))
			tags = t
		case 2:
			id := idc.Add(1)
			member := fmt.Sprintf("m%d", id)
			t := append([]string(nil), tags...)
			if badUTF8 && rng.Intn(4) == 0 {
				t = append(t, "bad\xc3\x28tag")
			}
			line = fmt.Sprintf("s%d:%s|s", s, member)
			rec.ids = append(rec.ids, "s"+member)
			tags = t
		default:
			line = fmt.Sprintf("g%d:%d|g", s, rng.Intn(100))
		}
		if len(tags) > 0 {
			line += "|#" + strings.Join(tags, ",")
		}
		m, _, err := lx.Run([]byte(line), "")
		if err != nil || m == nil {
			return nil, nil, fmt.Errorf("generated line %q rejected: %v", line, err)
		}
		m.Source = gostatsd.Source("10.0.0." + fmt.Sprint(client))
		m.Timestamp = gostatsd.Nanotime(idc.Add(1))
		mm.Receive(m)
	}
	return mm, rec, nil
}

type world struct {
	r          *mon.Run
	cfg        config
	up         *upstream
	spy        *spyStatser
	hfh        *statsd.HttpForwarderHandlerV2
	fc         statsd.VerifFlushCoordinator
	mock       *clock.Mock
	ctx        context.Context
	cancel     context.CancelFunc
	runDone    chan struct{}
	notifs     atomic.Int64
	stopWaiter chan struct{}
}

func newWorld(r *mon.Run, cfg config, choose func(b *bodyRec, rng *rand.Rand) []string) (*world, error) {
	logger := logrus.New()
	logger.SetLevel(logrus.PanicLevel)
	logger.SetOutput(io.Discard)
	w := &world{r: r, cfg: cfg, spy: newSpy(), runDone: make(chan struct{}), stopWaiter: make(chan struct{})}
	w.up = &upstream{r: r, bodies: map[string]*bodyRec{}, rng: r.Rand(fmt.Sprintf("exec%d-upstream", cfg.Exec)), choose: choose, hdr: http.CanonicalHeaderKey(cfg.dynName())}
	pool := transport.NewTransportPool(logger, viper.New())
	c, err := pool.Get("default")
	if err != nil {
		return nil, err
	}
	c.Client.Transport = w.up
	var dyn []string
	if cfg.Dyn {
		dyn = []string{cfg.dynName()}
	}
	window := time.Duration(cfg.WindowMS) * time.Millisecond
	if cfg.WindowMS < 0 {
		window = -1
	}
	if cfg.Mode != "timer" {
		w.fc = statsd.VerifNewFlushCoordinator()
	}
	var fc statsd.VerifFlushCoordinator
	if w.fc != nil {
		fc = w.fc
	}
	h, err := newForwarder(logger, cfg, window, dyn, pool, fc)
	if err != nil {
		return nil, err
	}
	w.hfh = h
	w.mock = clock.NewMock(time.Now())
	base := stats.NewContext(clock.Context(context.Background(), w.mock), w.spy)
	w.ctx, w.cancel = context.WithCancel(base)
	go func() {
		defer close(w.runDone)
		h.Run(w.ctx)
	}()
	go h.RunMetricsContext(base) // outlives Run so that the final counters can be emitted
	if w.fc != nil {
		go func() {
			for {
				done := make(chan struct{})
				go func() { w.fc.WaitForFlush(); close(done) }()
				select {
				case <-done:
					w.notifs.Add(1)
				case <-w.stopWaiter:
					return
				}
			}
		}()
	}
	// the priming (empty) request must have been answered before the workload starts
	if !mon.WaitUntil(30*time.Second, func() bool {
		bs := w.up.snapshot()
		return len(bs) >= 1 && w.up.inflight.Load() == 0
	}) {
		return nil, errors.New("priming request not observed")
	}
	return w, nil
}

func newForwarder(logger logrus.FieldLogger, cfg config, window time.Duration, dyn []string, pool *transport.TransportPool, fc statsd.VerifFlushCoordinator) (*statsd.HttpForwarderHandlerV2, error) {
	if cfg.FromConfig {
		// the documented keys of the http-transport section (README "Configuring HTTP servers / forwarder"),
		// as configuration text: what the operator writes is what the forwarder must do
		var sb strings.Builder
		fmt.Fprintf(&sb, "[http-transport]\napi-endpoint = %q\nconsolidator-slots = %d\nmax-requests = %d\nconcurrent-merge = %d\ncompress = %v\ncompression-type = \"zlib\"\ncompression-level = 6\nflush-interval = \"1s\"\n",
			"http://upstream.invalid", cfg.Slots, cfg.MaxRequests, cfg.Merge, cfg.Compress)
		if window == -1 {
			sb.WriteString("max-request-elapsed-time = -1\n")
		} else {
			fmt.Fprintf(&sb, "max-request-elapsed-time = %q\n", window.String())
		}
		if len(dyn) > 0 {
			fmt.Fprintf(&sb, "dynamic-headers = [%q]\n", dyn[0])
		}
		v := viper.New()
		v.SetConfigType("toml")
		if err := v.ReadConfig(strings.NewReader(sb.String())); err != nil {
			return nil, err
		}
		if fc == nil {
			return statsd.NewHttpForwarderHandlerV2FromViper(logger, v, pool, nil)
		}
		return statsd.NewHttpForwarderHandlerV2FromViper(logger, v, pool, fc)
	}
	if fc == nil {
		return statsd.NewHttpForwarderHandlerV2(logger, "default", "http://upstream.invalid", cfg.Slots, cfg.MaxRequests, cfg.Merge, cfg.Compress, "zlib", 6, window, time.Second, nil, dyn, pool, nil)
	}
	return statsd.NewHttpForwarderHandlerV2(logger, "default", "http://upstream.invalid", cfg.Slots, cfg.MaxRequests, cfg.Merge, cfg.Compress, "zlib", 6, window, time.Second, nil, dyn, pool, fc)
}

// finishedBodies reports whether every body seen so far has either succeeded or exhausted its chances
// according to the counters (created == sent + dropped).
func (w *world) finishedBodies() bool {
	w.emitCounters()
	return w.spy.get("http.forwarder.created")+w.spy.get("http.forwarder.invalid") >= uint64(len(w.up.snapshot())) &&
		w.spy.get("http.forwarder.created") == w.spy.get("http.forwarder.sent")+w.spy.get("http.forwarder.dropped")
}

// emitCounters triggers the forwarder's periodic metric emission and waits for it.
func (w *world) emitCounters() bool {
	before := w.spy.ncalls("http.forwarder.dropped")
	return mon.WaitUntil(30*time.Second, func() bool {
		w.spy.Statser.NotifyFlush(context.Background(), time.Second)
		return w.spy.ncalls("http.forwarder.dropped") > before
	})
}

// ---------------------------------------------------------------------------------------------
// concurrent runs (manual or timer driven flushing)

type flushRec struct{ begin, done int64 }

func randomScript(cfg config) func(b *bodyRec, rng *rand.Rand) []string {
	return func(b *bodyRec, rng *rand.Rand) []string {
		if cfg.Faults == "none" {
			switch rng.Intn(8) {
			case 0:
				return []string{"slow"}
			case 1:
				return []string{"okbad"}
			}
			return []string{"ok"}
		}
		if cfg.WindowMS < 0 { // retries disabled: a failing first attempt is final
			return [][]string{{"ok"}, {"ok"}, {"500"}, {"conn"}, {"slow"}, {"400"}}[rng.Intn(6)]
		}
		return [][]string{{"ok"}, {"okbad"}, {"slow"}, {"500", "ok"}, {"conn", "okbad"}, {"400", "slow"}, {"500", "conn", "ok"}}[rng.Intn(7)]
	}
}

func runConcurrent(r *mon.Run, cfg config) {
	r.Case("concurrent %+v", cfg)
	w, err := newWorld(r, cfg, randomScript(cfg))
	if err != nil {
		r.Inconclusive("setup:" + err.Error())
		return
	}
	var idc atomic.Int64
	idc.Store(int64(cfg.Exec%1000) << 32)
	recs := make([][]*dispatchRec, cfg.Dispatchers)
	var dwg sync.WaitGroup
	genErr := atomic.Value{}
	tenantPool := []string{""}
	if cfg.Dyn {
		tenantPool = tenants
	}
	var running atomic.Int64
	running.Store(int64(cfg.Dispatchers))
	for d := 0; d < cfg.Dispatchers; d++ {
		dwg.Add(1)
		go func(d int) {
			defer dwg.Done()
			defer running.Add(-1)
			rng := r.Rand(fmt.Sprintf("exec%d-disp%d", cfg.Exec, d))
			lx := statsd.VerifNewLexer(0)
			for i := 0; i < cfg.PerDisp; i++ {
				mm, rec, err := buildMap(lx, rng, cfg, d, &idc, cfg.BadUTF8 && d == 0, tenantPool)
				if err != nil {
					genErr.Store(err)
					return
				}
				w.hfh.DispatchMetricMap(w.ctx, mm)
				rec.returned = r.Stamp()
				recs[d] = append(recs[d], rec)
				if rng.Intn(3) == 0 {
					runtime.Gosched()
				}
			}
		}(d)
	}

	// flush driver
	var flushes []flushRec
	flushOnce := func() bool {
		switch {
		case cfg.Mode == "manual" && !cfg.Dyn:
			// dynamic headers off: exactly one notification per flush (also for an empty one), flushes are sequential
			n0 := w.notifs.Load()
			f := flushRec{begin: r.Stamp()}
			w.fc.Flush()
			if !mon.WaitUntil(120*time.Second, func() bool { return w.notifs.Load() > n0 }) {
				return false
			}
			f.done = r.Stamp()
			flushes = append(flushes, f)
		case cfg.Mode == "manual":
			// with dynamic headers a flush notifies once per request (and not at all when there is no data)
			w.fc.Flush()
		default:
			w.mock.Add(time.Second)
		}
		return true
	}
	frng := r.Rand(fmt.Sprintf("exec%d-flusher", cfg.Exec))
	for running.Load() > 0 {
		if !flushOnce() {
			r.Violation("flush-never-notified", fmt.Sprintf("a manual flush was not followed by a flush notification within 120s (%+v)", cfg), cfg)
			w.cancel()
			return
		}
		for i, n := 0, frng.Intn(30); i < n; i++ {
			runtime.Gosched()
		}
	}
	dwg.Wait()
	if e := genErr.Load(); e != nil {
		r.Violation("generated-line-rejected", e.(error).Error(), cfg)
	}
	// Drain: flush until every dispatched id has reached the upstream in some body (logical bound: 50 flushes),
	// so that nothing is in flight when the forwarder is stopped (shutdown is outside the property).
	var all []string
	for _, dr := range recs {
		for _, rec := range dr {
			all = append(all, rec.ids...)
		}
	}
	accounted := func() bool {
		seen := map[string]bool{}
		for _, b := range w.up.snapshot() {
			w.up.mu.Lock()
			for _, id := range b.IDs {
				seen[id] = true
			}
			w.up.mu.Unlock()
		}
		for _, id := range all {
			if !seen[id] {
				return false
			}
		}
		return true
	}
	for i := 0; i < 50; i++ {
		if !flushOnce() {
			r.Violation("flush-never-notified", fmt.Sprintf("a manual flush was not followed by a flush notification within 120s (%+v)", cfg), cfg)
			w.cancel()
			return
		}
		if mon.WaitUntil(2*time.Second, accounted) && i >= 1 {
			break
		}
	}
	mon.WaitUntil(120*time.Second, func() bool { return w.up.inflight.Load() == 0 && w.finishedBodies() })
	finish(r, w, cfg, recs, flushes)
}

// finish stops the forwarder and runs the offline oracles.
func finish(r *mon.Run, w *world, cfg config, recs [][]*dispatchRec, flushes []flushRec) {
	// In timer mode cancelling makes the consolidator flush once more; Run returns only after every
	// request finished (all semaphore tokens re-acquired).
	w.cancel()
	select {
	case <-w.runDone:
	case <-time.After(180 * time.Second):
		r.Violation("forwarder-run-did-not-return", fmt.Sprintf("Run did not return 180s after cancellation although the upstream is idle=%v (%+v)", w.up.inflight.Load() == 0, cfg), cfg)
		return
	}
	close(w.stopWaiter)
	if !w.emitCounters() {
		r.Inconclusive("counters-not-emitted")
		return
	}
	bodies := w.up.snapshot()
	viol := func(sig, detail string) {
		r.Violation(sig, detail+fmt.Sprintf(" [%+v]", cfg), map[string]interface{}{"config": cfg})
	}
	for _, b := range w.up.bad {
		viol("upstream-protocol", b)
	}

	// --- attempt sequences and counters
	var created, sent, retried, dropped uint64
	where := map[string][]*bodyRec{}
	retries := 0
	for _, b := range bodies {
		created++
		ok := false
		for i, a := range b.Attempts {
			good := good(a.Outcome)
			if ok {
				viol("resent-after-success", fmt.Sprintf("body %s attempted again (attempt %d) after a 2xx", b.Hash, i+1))
			}
			if good {
				ok = true
			}
			if i > 0 {
				retried++
				retries++
				if b.Attempts[i-1].End == 0 || b.Attempts[i-1].End > a.Begin {
					viol("overlapping-attempts", fmt.Sprintf("body %s attempt %d began before attempt %d ended", b.Hash, i+1, i))
				}
			}
		}
		if ok {
			sent++
		} else {
			dropped++
			if cfg.Faults == "none" {
				viol("dropped-without-failure", fmt.Sprintf("body %s never got a 2xx although the upstream never failed", b.Hash))
			}
			// abandoned: legal only when retries are disabled or the window can have elapsed
			if cfg.WindowMS >= 0 {
				elapsedUpper := b.lastAt.Sub(b.firstAt) + 2*time.Second
				_ = elapsedUpper
				if len(b.Script) > len(b.Attempts) || good(b.Script[len(b.Script)-1]) {
					viol("abandoned-early", fmt.Sprintf("body %s abandoned after attempts %v although its script %v ends in success and the window is %dms", b.Hash, outcomes(b), b.Script, cfg.WindowMS))
				}
			} else if len(b.Attempts) != 1 {
				viol("retried-with-retries-disabled", fmt.Sprintf("body %s attempted %d times with max-request-elapsed-time=-1", b.Hash, len(b.Attempts)))
			}
		}
		if cfg.WindowMS < 0 && len(b.Attempts) != 1 {
			viol("retried-with-retries-disabled", fmt.Sprintf("body %s attempted %d times with max-request-elapsed-time=-1", b.Hash, len(b.Attempts)))
		}
		for _, id := range b.IDs {
			where[id] = append(where[id], b)
		}
		// header / series partition
		if !b.Nop {
			for _, s := range b.Series {
				want, has := "", false
				for _, t := range s.Tags {
					if strings.HasPrefix(t, cfg.dynName()+":") {
						want, has = t[len(cfg.dynName())+1:], true
					}
				}
				if !cfg.Dyn {
					has, want = false, ""
				}
				if has != b.HasHdr || want != b.Header {
					viol("header-mismatch", fmt.Sprintf("series %s %q (tags %q) travelled in a request with header %s=%q present=%v (configured dynamic header %q)", typeName(s.Type), s.Name, s.Tags, w.up.hdr, b.Header, b.HasHdr, cfg.dynName()))
					break
				}
			}
		}
	}
	got := map[string]uint64{"created": w.spy.get("http.forwarder.created"), "sent": w.spy.get("http.forwarder.sent"), "retried": w.spy.get("http.forwarder.retried"),
		"dropped": w.spy.get("http.forwarder.dropped"), "invalid": w.spy.get("http.forwarder.invalid")}
	want := map[string]uint64{"created": created, "sent": sent, "retried": retried, "dropped": dropped, "invalid": 0}
	for _, k := range []string{"created", "sent", "retried", "dropped", "invalid"} {
		if got[k] != want[k] {
			viol("counter-"+k, fmt.Sprintf("http.forwarder.%s=%d but the upstream log shows %d (bodies=%d)", k, got[k], want[k], len(bodies)))
		}
	}

	// --- id conservation
	nIDs, lost, dup := 0, 0, 0
	dispCounters := map[string]int64{}
	for _, dr := range recs {
		for _, rec := range dr {
			for k, v := range rec.counters {
				dispCounters[k] += v
			}
			for _, id := range rec.ids {
				nIDs++
				bs := where[id]
				switch {
				case len(bs) == 0:
					lost++
					if lost <= 3 {
						viol("datapoint-lost", fmt.Sprintf("datapoint %s (client %d, dispatch returned at stamp %d) is in no request body and no body was counted as dropped for it (invalid=%d dropped=%d)", id, rec.client, rec.returned, got["invalid"], got["dropped"]))
					}
				case len(bs) > 1:
					dup++
					if dup <= 3 {
						viol("datapoint-duplicated", fmt.Sprintf("datapoint %s is in %d distinct request bodies", id, len(bs)))
					}
				default:
					// ordering (manual mode, dynamic headers off): dispatched before flush k began => its body's last
					// attempt ended before flush k's notification
					if cfg.Mode == "manual" && !cfg.Dyn {
						for _, f := range flushes {
							if f.begin > rec.returned {
								last := bs[0].Attempts[len(bs[0].Attempts)-1]
								if last.End == 0 || last.End > f.done {
									viol("delivered-after-its-flush", fmt.Sprintf("datapoint %s was dispatched (stamp %d) before flush began (stamp %d) but its body's last attempt ended at stamp %d, after that flush was notified complete (stamp %d)", id, rec.returned, f.begin, last.End, f.done))
								}
								break
							}
						}
					}
				}
			}
		}
	}
	for id := range where {
		_ = id
	}
	bodyCounters := map[string]int64{}
	for _, b := range bodies {
		for k, v := range b.Counters {
			bodyCounters[k] += v
		}
	}
	for k, v := range dispCounters {
		if bodyCounters[k] != v {
			viol("counter-sum", fmt.Sprintf("counter %q: sum over all request bodies %d, dispatched %d", k, bodyCounters[k], v))
			break
		}
	}

	// --- coverage
	overlap := 0
	for _, b := range bodies {
		if len(b.Attempts) > 1 {
			overlap++
		}
	}
	r.Eval(1)
	r.Event("request_bodies", len(bodies))
	r.Event("attempts_retried", retries)
	r.Event("bodies_dropped", int(dropped))
	r.Event("datapoint_ids", nIDs)
	r.Event("flushes", len(flushes))
	multi := 0
	for _, b := range bodies {
		clients := map[string]bool{}
		for _, s := range b.Series {
			if i := strings.LastIndex(s.TagsKey, "s:10.0.0."); i >= 0 {
				clients[s.TagsKey[i:]] = true
			}
		}
		if len(clients) > 1 {
			multi++
		}
	}
	r.Event("bodies_mixing_clients", multi)
	if multi > 0 || overlap > 0 {
		r.Nontrivial(fmt.Sprintf("%s d%d s%d r%d m%d dyn%v%s f%s w%d bad%v c%v retry%v mixed%v text%v", cfg.Mode, cfg.Dispatchers, cfg.Slots, cfg.MaxRequests, cfg.Merge, cfg.Dyn, cfg.DynName, cfg.Faults, cfg.WindowMS, cfg.BadUTF8, cfg.Compress, overlap > 0, multi > 0, cfg.FromConfig))
	}
	if r.WantSample() {
		var sample []map[string]interface{}
		for i, b := range bodies {
			if i > 4 {
				break
			}
			sample = append(sample, map[string]interface{}{"body": b.Hash, "ids": len(b.IDs), "series": len(b.Series), "tenant_header": b.Header, "attempts": outcomes(b)})
		}
		r.Sample(map[string]interface{}{"config": cfg, "datapoint_ids": nIDs, "request_bodies": len(bodies), "first_bodies": sample, "counters": got})
	}
}

func outcomes(b *bodyRec) []string {
	var o []string
	for _, a := range b.Attempts {
		o = append(o, a.Outcome)
	}
	return o
}

func typeName(t int) string { return []string{"?", "counter", "timer", "gauge", "set"}[t] }

// ---------------------------------------------------------------------------------------------
// scripted sequential runs: fault enumeration, one body per tenant, each following its own script

var failures = []string{"500", "400", "conn"}

// allScripts enumerates every outcome script with up to maxFail failures followed by a success.
func allScripts(maxFail int) [][]string {
	out := [][]string{{"ok"}, {"slow"}, {"okbad"}, {"500", "okbad"}}
	var rec func(prefix []string)
	rec = func(prefix []string) {
		if len(prefix) > 0 {
			out = append(out, append(append([]string(nil), prefix...), "ok"))
		}
		if len(prefix) == maxFail {
			return
		}
		for _, f := range failures {
			rec(append(append([]string(nil), prefix...), f))
		}
	}
	rec(nil)
	return out
}

type scriptedCase struct {
	Config  config     `json:"config"`
	Scripts [][]string `json:"scripts"` // one per tenant (dyn on) or one per flush (dyn off)
}

func runScripted(r *mon.Run, sc scriptedCase) {
	cfg := sc.Config
	r.Case("scripted %+v", sc)
	var cur atomic.Value // current script for dyn-off mode
	cur.Store([]string{"ok"})
	choose := func(b *bodyRec, rng *rand.Rand) []string {
		if cfg.Dyn {
			var i int
			if _, err := fmt.Sscanf(b.Header, "t%d", &i); err == nil && i < len(sc.Scripts) {
				return sc.Scripts[i]
			}
			return []string{"ok"}
		}
		return cur.Load().([]string)
	}
	w, err := newWorld(r, cfg, choose)
	if err != nil {
		r.Inconclusive("setup:" + err.Error())
		return
	}
	lx := statsd.VerifNewLexer(0)
	var idc atomic.Int64
	idc.Store(int64(cfg.Exec%1000)<<32 + 1<<30)
	rng := r.Rand(fmt.Sprintf("exec%d-scripted", cfg.Exec))
	var recs []*dispatchRec
	var flushes []flushRec
	viol := func(sig, detail string) {
		r.Violation(sig, detail+fmt.Sprintf(" [%+v]", cfg), sc)
	}
	t0 := time.Now()

	doFlush := func(expectBodies int) (begin, done int64, ok bool) {
		n0 := w.notifs.Load()
		begin = r.Stamp()
		w.fc.Flush()
		ok = mon.WaitUntil(180*time.Second, func() bool { return w.notifs.Load() >= n0+int64(expectBodies) })
		done = r.Stamp()
		flushes = append(flushes, flushRec{begin, done})
		return
	}

	rounds := len(sc.Scripts)
	if cfg.Dyn {
		rounds = 2
	}
	for round := 0; round < rounds; round++ {
		var pool []string
		if cfg.Dyn {
			for i := range sc.Scripts {
				pool = append(pool, fmt.Sprintf("t%d", i))
			}
		} else {
			pool = []string{""}
			cur.Store(sc.Scripts[round])
		}
		// several dispatches, every tenant present at least once
		tenantsSeen := map[string]bool{}
		nd := 2 + rng.Intn(3)
		for d := 0; d < nd || len(tenantsSeen) < len(pool); d++ {
			p := pool
			if d >= nd { // force the missing tenants
				p = nil
				for _, t := range pool {
					if !tenantsSeen[t] {
						p = append(p, t)
					}
				}
			}
			mm, rec, err := buildMap(lx, rng, cfg, d%3, &idc, cfg.BadUTF8 && d == 0, p)
			if err != nil {
				viol("generated-line-rejected", err.Error())
				w.cancel()
				return
			}
			mm.Timers.Each(func(_, _ string, t gostatsd.Timer) { markTenants(cfg.dynName(), t.Tags, tenantsSeen) })
			mm.Sets.Each(func(_, _ string, s gostatsd.Set) { markTenants(cfg.dynName(), s.Tags, tenantsSeen) })
			mm.Counters.Each(func(_, _ string, c gostatsd.Counter) { markTenants(cfg.dynName(), c.Tags, tenantsSeen) })
			mm.Gauges.Each(func(_, _ string, g gostatsd.Gauge) { markTenants(cfg.dynName(), g.Tags, tenantsSeen) })
			w.hfh.DispatchMetricMap(w.ctx, mm)
			rec.returned = r.Stamp()
			recs = append(recs, rec)
		}
		expect := len(tenantsSeen)
		before := len(w.up.snapshot())
		begin, done, ok := doFlush(expect)
		if !ok {
			viol("flush-never-notified", fmt.Sprintf("flush produced %d of the %d expected notifications within 180s", w.notifs.Load(), expect))
			w.cancel()
			return
		}
		// bodies of this flush: partition of the series
		bodies := w.up.snapshot()[before:]
		seen := map[string]string{}
		for _, b := range bodies {
			if b.First < begin || b.First > done {
				viol("body-outside-its-flush", fmt.Sprintf("body %s first seen at stamp %d, flush interval [%d,%d]", b.Hash, b.First, begin, done))
			}
			for _, s := range b.Series {
				k := fmt.Sprintf("%d|%s|%s", s.Type, s.Name, s.TagsKey)
				if prev, dup := seen[k]; dup {
					viol("series-in-two-requests", fmt.Sprintf("series %q is in request %s and %s of the same flush", k, prev, b.Hash))
				}
				seen[k] = b.Hash
			}
		}
		if len(bodies) != expect {
			viol("requests-per-flush", fmt.Sprintf("flush produced %d distinct request bodies, %d dynamic-header groups were dispatched", len(bodies), expect))
		}
		// per-body script conformance
		for _, b := range bodies {
			wantAttempts := 0
			delivered := false
			for i, o := range b.Script {
				wantAttempts = i + 1
				if good(o) {
					delivered = true
					break
				}
			}
			switch {
			case cfg.WindowMS < 0:
				if len(b.Attempts) != 1 {
					viol("retried-with-retries-disabled", fmt.Sprintf("body %s attempts %v, script %v, retries disabled", b.Hash, outcomes(b), b.Script))
				}
			case cfg.WindowMS >= 600000: // effectively unlimited: must follow the script to its success
				if !delivered {
					break
				}
				if len(b.Attempts) != wantAttempts || !b.succeeded() {
					viol("script-not-followed", fmt.Sprintf("body %s attempts %v, script %v with a %dms window: expected exactly %d attempts ending in success", b.Hash, outcomes(b), b.Script, cfg.WindowMS, wantAttempts))
				}
			default: // small window
				if !b.succeeded() {
					// abandoned: the window must be able to have elapsed between the flush call and now
					upper := time.Since(t0)
					if upper <= time.Duration(cfg.WindowMS)*time.Millisecond {
						viol("abandoned-before-window", fmt.Sprintf("body %s abandoned after %v (attempts %v) with a %dms retry window", b.Hash, upper, outcomes(b), cfg.WindowMS))
					}
				}
			}
		}
		t0 = time.Now()
		r.Eval(1)
		r.Event("scripted_rounds", 1)
		r.Nontrivial(fmt.Sprintf("scripted dyn%v w%d scripts%v", cfg.Dyn, cfg.WindowMS, sc.Scripts))
	}

	// forced interleaving: a dispatch holds a consolidator slot while a flush runs
	if cfg.HoldSlot {
		held := make(chan struct{})
		release := make(chan struct{})
		var armed atomic.Bool
		armed.Store(true)
		verifhookSet(func(string) {
			if armed.CompareAndSwap(true, false) {
				close(held)
				<-release
			}
		})
		cur.Store([]string{"ok"})
		mm, rec, _ := buildMap(lx, rng, cfg, 1, &idc, false, []string{""})
		dispatched := make(chan struct{})
		go func() {
			w.hfh.DispatchMetricMap(w.ctx, mm)
			rec.returned = r.Stamp()
			close(dispatched)
		}()
		<-held
		flushed := make(chan struct{})
		n0 := w.notifs.Load()
		go func() { w.fc.Flush(); close(flushed) }()
		for i := 0; i < 2000; i++ {
			runtime.Gosched()
		}
		completedWhileHeld := false
		select {
		case <-flushed:
			completedWhileHeld = true
		default:
		}
		close(release)
		<-dispatched
		<-flushed
		verifhookClear()
		recs = append(recs, rec)
		_ = n0
		r.Event("slot_held_flushes", 1)
		if completedWhileHeld {
			r.Event("flush_completed_while_slot_held", 1)
		}
	}
	// drain without relying on notifications (an empty flush with dynamic headers notifies nobody)
	accounted := func() bool {
		seen := map[string]bool{}
		for _, b := range w.up.snapshot() {
			w.up.mu.Lock()
			for _, id := range b.IDs {
				seen[id] = true
			}
			w.up.mu.Unlock()
		}
		for _, rec := range recs {
			for _, id := range rec.ids {
				if !seen[id] {
					return false
				}
			}
		}
		return true
	}
	for i := 0; i < 20; i++ {
		w.fc.Flush()
		if mon.WaitUntil(2*time.Second, accounted) {
			break
		}
	}
	mon.WaitUntil(120*time.Second, func() bool { return w.up.inflight.Load() == 0 && w.finishedBodies() })
	finish(r, w, cfg, [][]*dispatchRec{recs}, nil)
}

// runShutdownInBackoff: the forwarder is stopped while a body whose first attempt failed sleeps in its
// (real-time, 0.25-0.75 s) back-off. "Abandoned only when the retry window is exhausted, each abandonment
// counted once as dropped" has no exception for shutdown: with an unlimited window the body must still be
// delivered (Run returns only after every request finished), and the counters must account for every body.
func runShutdownInBackoff(r *mon.Run, sc scriptedCase) {
	cfg := sc.Config
	r.Case("shutdown-in-backoff %+v", sc)
	script := sc.Scripts[0]
	choose := func(b *bodyRec, rng *rand.Rand) []string { return script }
	w, err := newWorld(r, cfg, choose)
	if err != nil {
		r.Inconclusive("setup:" + err.Error())
		return
	}
	lx := statsd.VerifNewLexer(0)
	var idc atomic.Int64
	idc.Store(int64(cfg.Exec%1000)<<32 + 1<<29)
	rng := r.Rand(fmt.Sprintf("exec%d-shutdown", cfg.Exec))
	var recs []*dispatchRec
	for d := 0; d < 1+rng.Intn(3); d++ {
		mm, rec, err := buildMap(lx, rng, cfg, d, &idc, false, []string{""})
		if err != nil {
			r.Violation("generated-line-rejected", err.Error(), sc)
			w.cancel()
			return
		}
		w.hfh.DispatchMetricMap(w.ctx, mm)
		rec.returned = r.Stamp()
		recs = append(recs, rec)
	}
	go w.fc.Flush()
	// the data body's first attempt has been answered (with a failure): its goroutine now sleeps in the back-off
	inBackoff := mon.WaitUntil(60*time.Second, func() bool {
		if w.up.inflight.Load() != 0 {
			return false
		}
		w.up.mu.Lock()
		defer w.up.mu.Unlock()
		for _, b := range w.up.order {
			if !b.Nop && len(b.Attempts) >= 1 && b.Attempts[len(b.Attempts)-1].End != 0 && !b.succeeded() {
				return true
			}
		}
		return false
	})
	if !inBackoff {
		r.Inconclusive("shutdown-in-backoff:first-attempt-not-observed")
		w.cancel()
		return
	}
	r.Event("shutdowns_during_backoff", 1)
	r.Eval(1)
	r.Nontrivial(fmt.Sprintf("shutdown-in-backoff script%v slots%d", script, cfg.Slots))
	finish(r, w, cfg, [][]*dispatchRec{recs}, nil) // cancels, waits for Run, then judges attempts, counters and ids
}

func markTenants(dn string, tags gostatsd.Tags, seen map[string]bool) {
	for _, t := range tags {
		if strings.HasPrefix(t, dn+":") {
			seen[t[len(dn)+1:]] = true
			return
		}
	}
	seen[""] = true
}

func TestCheck(t *testing.T) {
	r := mon.Start(t, "C15")
	defer r.Finish()
	logrus.SetLevel(logrus.PanicLevel)
	r.Rule("executions of the real HttpForwarderHandlerV2 behind a scripted RoundTripper. (1) concurrent runs: 1-8 dispatchers feed maps lexed from generated lines (unique ids; one client may send tags that are not valid UTF-8) while flushes are driven manually through the flush coordinator or by a mock-clock ticker, upstream outcomes none/random per body; (2) scripted sequential runs: one body per dynamic-header tenant, each following an enumerated outcome script (all scripts with <=2 failures over {5xx,4xx,connection error} then success; retries disabled; small window with permanent failure), plus a forced interleaving holding a consolidator slot across a flush. Oracles: id conservation (each id in exactly one distinct body), attempt sequence fail*·success?, counters created/sent/retried/dropped/invalid vs the attempt log, flush ordering by logical stamps (manual, no dynamic headers), header/series partition. Non-trivial: a run in which a body mixed several clients' data or needed a retry (concurrent), every scripted round; distinct by configuration and script list.")
	r.Assume("retry back-off runs on the real clock (the forwarder posts with context.Background()); only its logical consequences are judged, plus 'abandoned no earlier than the window' on an upper bound of the elapsed time")
	if p := r.ReplayPayload(); p != nil {
		var sc scriptedCase
		var lc lambdaCase
		if mon.ReplayCase(p, &lc) != nil && lc.Lambda {
			runLambdaCase(r, lc)
		} else if mon.ReplayCase(p, &sc) != nil && sc.Config.Mode == "shutdown" {
			runShutdownInBackoff(r, sc)
		} else if mon.ReplayCase(p, &sc) != nil && sc.Config.Mode == "scripted" {
			runScripted(r, sc)
		} else {
			var wrap struct {
				Config config `json:"config"`
			}
			var raw config
			if mon.ReplayCase(p, &wrap) != nil && wrap.Config.Mode != "" {
				runConcurrent(r, wrap.Config)
			} else if mon.ReplayCase(p, &raw) != nil && raw.Mode != "" {
				runConcurrent(r, raw)
			}
		}
		r.Nontrivial("replay-a")
		r.Nontrivial("replay-b")
		return
	}
	shard, _ := r.Shard()
	rng := r.Rand("configs")
	exec := shard * 10000

	// (1) concurrent runs
	nConc := r.N(48, 4000)
	for i := 0; i < nConc; i++ {
		exec++
		cfg := config{Exec: exec, Dispatchers: 1 + rng.Intn(8), Slots: 1 + rng.Intn(8), MaxRequests: 1 + rng.Intn(8), Merge: 1 + rng.Intn(3),
			PerDisp: 20 + rng.Intn(60), WindowMS: 3600000, Faults: "none", Compress: rng.Intn(4) == 0}
		cfg.Mode = []string{"manual", "timer"}[rng.Intn(2)]
		cfg.Dyn = rng.Intn(3) == 0
		cfg.BadUTF8 = rng.Intn(2) == 0
		cfg.FromConfig = rng.Intn(2) == 0
		if cfg.Dyn {
			cfg.DynName = dynNames[rng.Intn(len(dynNames))]
		}
		if i%6 == 5 { // faulty upstream: keep it short, back-off is real time
			cfg.Faults = "random"
			cfg.PerDisp = 5 + rng.Intn(10)
			cfg.Dispatchers = 1 + rng.Intn(3)
			if rng.Intn(3) == 0 {
				cfg.WindowMS = -1
			}
		}
		runConcurrent(r, cfg)
		if r.Violations() > 10 {
			return
		}
	}

	// (2) scripted runs: the list of cases is the same in every shard; each shard runs its share
	scripts := allScripts(2)
	if !r.Thorough() {
		scripts = [][]string{{"ok"}, {"500", "ok"}, {"conn", "slow"}, {"400", "500", "ok"}, {"conn", "conn", "ok"}, {"okbad"}}
	}
	var cases []scriptedCase
	add := func(dyn bool, window int, scs [][]string, hold bool) {
		exec++
		cases = append(cases, scriptedCase{Config: config{Mode: "scripted", Exec: exec, Slots: 2, MaxRequests: 16, Merge: 1, Dyn: dyn, WindowMS: window, Faults: "scripted", HoldSlot: hold}, Scripts: scs})
	}
	add(true, 3600000, scripts, true) // every script at once, one tenant each
	add(true, -1, [][]string{{"ok"}, {"500"}, {"400"}, {"conn"}, {"slow"}}, false)
	add(true, 300, [][]string{{"500"}, {"conn"}, {"400"}, {"500", "ok"}, {"ok"}}, false)
	for i := 0; i < len(scripts); i += 3 {
		end := i + 3
		if end > len(scripts) {
			end = len(scripts)
		}
		add(false, 3600000, scripts[i:end], i == 0)
	}
	add(false, -1, [][]string{{"conn"}, {"ok"}, {"500"}}, false)
	add(false, 300, [][]string{{"500"}, {"ok"}}, false)
	for i, sc := range cases {
		if !r.Mine(i) {
			continue
		}
		sc.Config.BadUTF8 = i%2 == 0
		runScripted(r, sc)
	}
	r.Extra("scripted_cases_total", len(cases)/maxInt(1, shardsOf(r)))

	// (2b) shutdown while a failed body sleeps in its back-off
	shut := [][]string{{"500", "ok"}, {"conn", "ok"}, {"500", "conn", "ok"}, {"400", "ok"}}
	for k := 0; k < r.Pick(4, 48); k++ {
		if !r.Mine(k) {
			continue
		}
		runShutdownInBackoff(r, scriptedCase{Config: config{Mode: "shutdown", Exec: 700000 + k, Slots: 1 + k%3, MaxRequests: 4, Merge: 1, WindowMS: 3600000, Faults: "scripted", Compress: k%2 == 1}, Scripts: [][]string{shut[k%len(shut)]}})
	}

	// (3) the forwarder as cmd/lambda-extension composes it with timer-driven flushing (real executable)
	nLambda := r.Pick(4, 64)
	for k := 0; k < nLambda; k++ {
		if !r.Mine(k) {
			continue
		}
		runLambdaCase(r, lambdaCase{Exec: 800000 + k, Lambda: true, IntervalMS: []int{50, 20, 120, 75}[k%4], Rounds: 3 + k%6, PerRound: 1 + (k*7)%40, Slots: 1 + k%4, Compress: k%2 == 1})
	}
}

func shardsOf(r *mon.Run) int { _, n := r.Shard(); return n }
func maxInt(a, b int) int {
	if a > b {
		return a
	}
	return b
}
