//go:build verif

package c15

// The forwarder as the Lambda extension composes it. cmd/lambda-extension decides from its configuration
// whether the forwarder flushes on its own timer (lambda-extension-manual-flush = false: the documented
// http-transport.flush-interval applies) or only when told to; that decision is taken in package main, so
// the real executable is run as a child process (built from the repository under test with the race
// detector) against a fake Lambda runtime API and a fake upstream, both on loopback.
//
// Oracle (conservation + bounded progress): every datapoint acknowledged by the extension's ingestion
// endpoint is contained in exactly one upstream request body. With a 50 ms flush interval a datapoint that is
// still unsent after the upstream has been idle for 30 s (600 intervals) will never be sent; that is
// confirmed by a second run before it is reported.

import (
	"bytes"
	"crypto/sha1"
	"fmt"
	"io"
	"net"
	"net/http"
	"net/http/httptest"
	"os"
	"os/exec"
	"path/filepath"
	"strings"
	"sync"
	"sync/atomic"
	"time"

	"google.golang.org/protobuf/proto"

	"github.com/atlassian/gostatsd/pb"

	"verif/mon"
	"verif/netx"
	"verif/ovl"
)

type lambdaCase struct {
	Exec       int    `json:"exec"`
	Lambda     bool   `json:"lambda_executable"` // marks the replay payload
	IntervalMS int    `json:"forwarder_flush_interval_ms"`
	Rounds     int    `json:"rounds"`
	PerRound   int    `json:"datapoints_per_round"`
	Slots      int    `json:"consolidator_slots"`
	Compress   bool   `json:"compress"`
	DynHeader  string `json:"dynamic_header,omitempty"`
}

type lambdaWorld struct {
	mu       sync.Mutex
	bodies   map[string][]string // body hash -> ids
	attempts map[string]int
	register int
	gets     int
	last     atomic.Int64
	inflight atomic.Int64
}

func (w *lambdaWorld) runtime(rw http.ResponseWriter, req *http.Request) {
	switch {
	case strings.HasSuffix(req.URL.Path, "/extension/register"):
		w.mu.Lock()
		w.register++
		w.mu.Unlock()
		rw.Header().Set("Lambda-Extension-Identifier", "verif-ext-id")
		rw.WriteHeader(200)
		_, _ = rw.Write([]byte(`{"functionName":"f","functionVersion":"1","handler":"h"}`))
	case strings.HasSuffix(req.URL.Path, "/extension/event/next"):
		w.mu.Lock()
		w.gets++
		w.mu.Unlock()
		<-req.Context().Done() // the function is never invoked again: the sandbox just stays warm
	default:
		rw.WriteHeader(200)
	}
}

func (w *lambdaWorld) upstream(rw http.ResponseWriter, req *http.Request) {
	w.inflight.Add(1)
	w.last.Store(time.Now().UnixNano())
	defer func() { w.last.Store(time.Now().UnixNano()); w.inflight.Add(-1) }()
	raw, _ := io.ReadAll(req.Body)
	body := raw
	if req.Header.Get("Content-Encoding") != "" {
		if msg, err := decodeBody(raw, req.Header.Get("Content-Encoding")); err == nil {
			body, _ = proto.Marshal(msg)
		}
	}
	var msg pb.RawMessageV2
	_ = proto.Unmarshal(body, &msg)
	var ids []string
	for _, tm := range msg.Sets {
		for _, s := range tm.TagMap {
			ids = append(ids, s.Values...)
		}
	}
	sum := sha1.Sum(raw)
	hash := fmt.Sprintf("%d-%x", len(raw), sum[:10])
	w.mu.Lock()
	if _, ok := w.bodies[hash]; !ok {
		w.bodies[hash] = ids
	}
	w.attempts[hash]++
	w.mu.Unlock()
	rw.WriteHeader(202)
}

func freeTCP() string {
	l, err := net.Listen("tcp", netx.IP()+":0")
	if err != nil {
		return netx.IP() + ":0"
	}
	defer l.Close()
	return l.Addr().String()
}

func freeUDPAddr() string {
	c, err := net.ListenPacket("udp", netx.IP()+":0")
	if err != nil {
		return netx.IP() + ":0"
	}
	defer c.Close()
	return c.LocalAddr().String()
}

// runLambdaOnce returns the ids that were acknowledged but never sent (nil = all sent), and false if the
// run could not be set up or judged.
func runLambdaOnce(r *mon.Run, c lambdaCase) (unsent []string, acked int, bodies int, ok bool) {
	bin, err := ovl.BuildCmd("lambda-extension", "./cmd/lambda-extension", true)
	if err != nil {
		r.Inconclusive("lambda:binary-build-failed")
		return nil, 0, 0, false
	}
	w := &lambdaWorld{bodies: map[string][]string{}, attempts: map[string]int{}}
	rt := httptest.NewServer(http.HandlerFunc(w.runtime))
	defer rt.Close()
	up := httptest.NewServer(http.HandlerFunc(w.upstream))
	defer up.Close()
	ingestAddr := freeTCP()
	var f strings.Builder
	fmt.Fprintf(&f, "metrics-addr = %q\nstatser-type = \"null\"\nmax-readers = 1\nflush-interval = \"1h\"\nlambda-extension-manual-flush = false\n", freeUDPAddr())
	fmt.Fprintf(&f, "http-servers = [\"ingest\"]\n\n[http.ingest]\naddress = %q\nenable-ingestion = true\nenable-healthcheck = false\n\n", ingestAddr)
	fmt.Fprintf(&f, "[http-transport]\napi-endpoint = %q\ncompress = %v\nmax-request-elapsed-time = \"30s\"\nconsolidator-slots = %d\nflush-interval = \"%dms\"\n", up.URL, c.Compress, c.Slots, c.IntervalMS)
	if c.DynHeader != "" {
		fmt.Fprintf(&f, "dynamic-headers = [%q]\n", c.DynHeader)
	}
	dir := os.Getenv("VERIF_OUT")
	confPath := filepath.Join(dir, fmt.Sprintf("c15-lambda%d.toml", c.Exec))
	if err := os.WriteFile(confPath, []byte(f.String()), 0o644); err != nil {
		r.Inconclusive("lambda:config-file")
		return nil, 0, 0, false
	}
	logFile, _ := os.Create(filepath.Join(dir, fmt.Sprintf("c15-lambda%d.log", c.Exec)))
	defer logFile.Close()
	cmd := exec.Command(bin, "--config-path="+confPath, "--lambda-entrypoint-name=gostatsd-verif")
	cmd.Env = append(os.Environ(), "AWS_LAMBDA_RUNTIME_API="+strings.TrimPrefix(rt.URL, "http://"))
	cmd.Stdout, cmd.Stderr = logFile, logFile
	if err := cmd.Start(); err != nil {
		r.Inconclusive("lambda:start")
		return nil, 0, 0, false
	}
	exited := make(chan struct{})
	go func() { _ = cmd.Wait(); close(exited) }()
	defer func() {
		_ = cmd.Process.Signal(os.Interrupt)
		select {
		case <-exited:
		case <-time.After(15 * time.Second):
			_ = cmd.Process.Kill()
			<-exited
		}
	}()
	ready := mon.WaitUntil(60*time.Second, func() bool {
		conn, err := net.DialTimeout("tcp", ingestAddr, time.Second)
		if err != nil {
			return false
		}
		conn.Close()
		return true
	})
	if !ready {
		r.Inconclusive("lambda:not-ready")
		return nil, 0, 0, false
	}
	client := &http.Client{Timeout: 30 * time.Second}
	var all []string
	n := 0
	for round := 0; round < c.Rounds; round++ {
		msg := &pb.RawMessageV2{Sets: map[string]*pb.SetTagV2{"verif.ids": {TagMap: map[string]*pb.RawSetV2{}}}}
		tm := msg.Sets["verif.ids"].TagMap
		var ids []string
		for i := 0; i < c.PerRound; i++ {
			n++
			id := fmt.Sprintf("L%d-%d", c.Exec, n)
			key, tags := "", []string(nil)
			if c.DynHeader != "" && i%3 != 0 {
				tags = []string{fmt.Sprintf("%s:v%d", c.DynHeader, i%3)}
				key = tags[0]
			}
			if tm[key] == nil {
				tm[key] = &pb.RawSetV2{Tags: tags}
			}
			tm[key].Values = append(tm[key].Values, id)
			ids = append(ids, id)
		}
		raw, _ := proto.Marshal(msg)
		resp, err := client.Post("http://"+ingestAddr+"/v2/raw", "application/x-protobuf", bytes.NewReader(raw))
		if err != nil {
			continue
		}
		_, _ = io.Copy(io.Discard, resp.Body)
		_ = resp.Body.Close()
		if resp.StatusCode >= 200 && resp.StatusCode <= 299 {
			all = append(all, ids...)
		}
		for i := 0; i < round%4; i++ {
			time.Sleep(time.Duration(c.IntervalMS) * time.Millisecond / 2) // spreads the rounds over several flush windows; not a synchronisation
		}
	}
	seen := func() map[string]int {
		w.mu.Lock()
		defer w.mu.Unlock()
		m := map[string]int{}
		for _, ids := range w.bodies {
			for _, id := range ids {
				m[id]++
			}
		}
		return m
	}
	missing := func() []string {
		m := seen()
		var out []string
		for _, id := range all {
			if m[id] == 0 {
				out = append(out, id)
			}
		}
		return out
	}
	// everything sent, or: nothing in flight and the upstream idle for 30 s although ids are still missing
	w.last.Store(time.Now().UnixNano())
	judged := mon.WaitUntil(120*time.Second, func() bool {
		if len(missing()) == 0 {
			return true
		}
		return w.inflight.Load() == 0 && time.Since(time.Unix(0, w.last.Load())) > 30*time.Second
	})
	if !judged {
		r.Inconclusive("lambda:not-quiescent")
		return nil, 0, 0, false
	}
	w.mu.Lock()
	bodies = len(w.bodies)
	w.mu.Unlock()
	for id, k := range seen() {
		if k > 1 {
			r.Violation("lambda-timer:datapoint-in-two-bodies", fmt.Sprintf("datapoint %s is contained in %d distinct upstream request bodies [%+v]", id, k, c), c)
			break
		}
	}
	return missing(), len(all), bodies, true
}

func runLambdaCase(r *mon.Run, c lambdaCase) {
	r.Case("lambda executable %+v", c)
	unsent, acked, bodies, ok := runLambdaOnce(r, c)
	if !ok {
		return
	}
	if len(unsent) > 0 {
		again, _, _, ok2 := runLambdaOnce(r, c)
		if ok2 && len(again) > 0 {
			r.Violation("lambda-timer:acked-datapoint-never-sent", fmt.Sprintf("cmd/lambda-extension with lambda-extension-manual-flush=false and http-transport.flush-interval=%dms: %d of %d datapoints acknowledged by the ingestion endpoint (e.g. %s) were in no upstream request although the upstream had been idle for 30 s (600 flush intervals); reproduced by a second run (%d unsent) [%+v]", c.IntervalMS, len(unsent), acked, unsent[0], len(again), c), c)
		} else {
			r.Inconclusive("lambda:unsent-once")
		}
	}
	r.Eval(1)
	r.Event("lambda_executable_runs", 1)
	r.Event("lambda_datapoints_acked", acked)
	r.Event("lambda_upstream_bodies", bodies)
	if bodies >= 2 {
		r.Nontrivial(fmt.Sprintf("lambda-timer i%d r%d n%d s%d c%v dyn%s", c.IntervalMS, c.Rounds, c.PerRound, c.Slots, c.Compress, c.DynHeader))
	}
}
