//go:build verif

package c15

import "github.com/atlassian/gostatsd/pkg/verifhook"

func verifhookSet(f func(string)) { verifhook.Set("consolidator.slotHeld", f) }
func verifhookClear()             { verifhook.Clear("consolidator.slotHeld") }
