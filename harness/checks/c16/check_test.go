//go:build verif

// C16 — each backend flush request completes exactly once under any transport fault.
//
// Fault enumeration against the real backends:
//   - sender_test.go: pkg/backends/sender.Sender driven directly, and the real graphite / statsdaemon
//     clients through VerifSetConnFactory, over scripted connections (dial fails / i-th write fails /
//     healthy) crossed with queued streams and cancellation of a stream's or the sender's context at
//     every dial; statsdaemon/udp over a real loopback socket.
//   - http_test.go: datadog, influxdb (v1, v2), newrelic (infra, insights, metrics), otlp behind a
//     scripted http.RoundTripper keyed by (batch, attempt) with the back-off clock taken from a
//     clock.Mock in the context; cloudwatch behind a scripted API; stdout and null.
//   - flusher_test.go: real MetricFlusher + BackendHandler + backend, a failing flush then a healthy one.
//
// Oracle (the same everywhere): per SendMetricsAsync call the SendCallback runs exactly once, counted at
// logical quiescence; it carries a non-nil error whenever an observed transport failure left some batch
// / buffer undelivered; nothing panics; the flusher attempts the next flush after a failed one.
package c16

import (
	"context"
	"encoding/json"
	"fmt"
	"io"
	"sync"
	"sync/atomic"
	"testing"
	"time"

	"github.com/sirupsen/logrus"

	"github.com/atlassian/gostatsd"

	"verif/mon"
)

const (
	// generous watchdogs; none of them is a synchronisation
	callbackWatch = 20 * time.Second
	settleWatch   = 3 * time.Second
)

func quietLogger() *logrus.Logger {
	l := logrus.New()
	l.SetOutput(io.Discard)
	l.SetLevel(logrus.PanicLevel)
	return l
}

func hasErr(errs []error) bool {
	for _, e := range errs {
		if e != nil {
			return true
		}
	}
	return false
}

func errStrings(errs []error) []string {
	out := []string{}
	for _, e := range errs {
		if e == nil {
			out = append(out, "<nil>")
		} else {
			s := e.Error()
			if len(s) > 120 {
				s = s[:120]
			}
			out = append(out, s)
		}
	}
	return out
}

// probe counts the invocations of one SendCallback and keeps the argument of the first one.
type probe struct {
	calls atomic.Int32
	mu    sync.Mutex
	errs  []error
	onCb  func()
}

func (p *probe) cb(errs []error) {
	// the argument is stored before the count becomes visible: a reader that saw calls >= 1 must find the
	// errors of that call (a preempted callback between the two steps once looked like "no error reported")
	p.mu.Lock()
	if p.calls.Load() == 0 {
		p.errs = append([]error(nil), errs...)
	}
	p.calls.Add(1)
	p.mu.Unlock()
	if p.onCb != nil {
		p.onCb()
	}
}

func (p *probe) first() []error {
	p.mu.Lock()
	defer p.mu.Unlock()
	return append([]error(nil), p.errs...)
}

// gaugeMap builds a flush map of n gauges named <prefix>_g<i><pad>.
func gaugeMap(prefix string, n int, pad string) *gostatsd.MetricMap {
	mm := gostatsd.NewMetricMap(false)
	ts := gostatsd.Nanotime(time.Now().UnixNano()) // input data only (keeps the gauges from expiring in the flusher-level runs)
	for i := 0; i < n; i++ {
		mm.Receive(&gostatsd.Metric{Name: fmt.Sprintf("%s_g%d%s", prefix, i, pad), Type: gostatsd.GAUGE, Value: float64(i + 1), Rate: 1, Timestamp: ts})
	}
	return mm
}

// replayCase is the witness stored with a violation; exactly one member is set.
type replayCase struct {
	Sender    *senderCase    `json:"sender,omitempty"`
	HTTP      *httpCase      `json:"http,omitempty"`
	Flusher   *flusherCase   `json:"flusher,omitempty"`
	Transport *transportCase `json:"transport,omitempty"`
	Hung      *hungCase      `json:"hung,omitempty"`
	Net       *netCase       `json:"net,omitempty"`
	Server    *srvCase       `json:"server,omitempty"`
	Seq       *seqCase       `json:"seq,omitempty"`
	UDP       bool           `json:"udp,omitempty"`
}

func js(v interface{}) string {
	b, _ := json.Marshal(v)
	return string(b)
}

func minInt(a, b int) int {
	if a < b {
		return a
	}
	return b
}

// parallel runs f(i) for every i in idx with at most width goroutines at a time.
func parallel(idx []int, width int, f func(i int)) {
	sem := make(chan struct{}, width)
	var wg sync.WaitGroup
	for _, i := range idx {
		wg.Add(1)
		sem <- struct{}{}
		go func(i int) {
			defer wg.Done()
			defer func() { <-sem }()
			f(i)
		}(i)
	}
	wg.Wait()
}

func TestCheck(t *testing.T) {
	r := mon.Start(t, "C16")
	defer r.Finish()
	logrus.SetLevel(logrus.PanicLevel)
	logrus.SetOutput(io.Discard)
	r.Rule("case = (backend, fault script, flush layout, cancellation point). SOCKET: every dial script over {F dial fails, Wi dial ok then the i-th write on that connection fails (i=1..3)} of length <=4 (quick: those with <=2 F, one layout; thorough: all, six layouts) followed by healthy connections (a healthy connection is absorbing, so scripts containing H equal their prefix), crossed with cancellation {none, Run context at dial n, one stream's context at dial n, n over every dial} and PRNG-drawn layouts of 1-3 streams x 1-3 buffers submitted before Run or during a chosen dial; fixed regression scripts (D9 pattern, stale stream-cancel, 100-streams-per-connection reconnect); the harness pumps filler streams while the sender idles on a healthy connection with script steps left, then a sentinel, then cancels Run and counts at Run's return; the same machinery drives the real graphite and statsdaemon (tcp size and udp packet size) clients via VerifSetConnFactory, plus statsdaemon/udp over a real loopback socket. HTTP: datadog, influxdb v1/v2, newrelic infra/insights/metrics, otlp behind a scripted RoundTripper, outcome per (batch, attempt) over {2xx, 500, 429+Retry-After, transport error, hang}: every failure prefix of length <=2 then success (window 1h), every failure sequence of length <=3 repeated until the 1s (virtual) retry window expires, retries disabled (-1), otlp max-retries, and cancellation before the call / at the n-th request / during the n-th back-off / late while only hung requests remain; layouts 0, 1, 3 batches (all batches or only the middle one following the script; max-requests 1 or 4); cloudwatch through a scripted API (per call ok/error/block), stdout and null. The influxdb cancelled-before-call case is repeated >=40 times per run. CLIENT TIMEOUT: (a) transport pools built from generated configurations (TOML, YAML, nested map, dotted keys; no transport section, [transport.default] with only unrelated keys / with client-timeout in 11 spellings incl. 0 / empty, named transports with and without their own client-timeout): http.Client.Timeout of pool.Get(name) must be the transport's own client-timeout, else 10s if its table exists, else that of transport.default (10s when unset) as TRANSPORT.md documents; (b) datadog, influxdb v1/v2, newrelic, otlp on a pool whose [transport.default] sets client-timeout 100-150ms next to other keys, against a real loopback server that reads the request and never answers: one callback, with an error (retries disabled / one virtual back-off / three sequential batches). SEQUENCES: on ONE long-lived client of every HTTP family and cloudwatch (max-requests 1-3), PRNG-drawn runs of flushes that are cancelled with min(batches, max-requests) requests in flight at a hung peer (at least max-requests of them), fail over the whole retry window, are cancelled before the call or succeed, followed by 2-3 flushes with fresh contexts against a healthy peer: each answered exactly once, without error, its batches delivered. SOCKET CLAUSE: a request nobody cancelled, answered before Run was cancelled, must not carry context.Canceled/DeadlineExceeded and must have been written unless a write of its data failed (flushes issued during an outage wait for recovery). PRODUCTION DIALER: graphite (tags/basic/legacy) and statsdaemon/tcp built by backends.InitBackend from TOML/YAML text (dial_timeout 80-350ms), nothing substituted, against a loopback TCP listener: healthy, the sender's 100-streams-per-connection reconnect, peer drops the connection, listener stops and listens again, listener starts late; the re-dial always happens after more than dial_timeout of uptime; every flush must be answered once the listener accepts, exactly once at Run's return. SERVER: real statsd.Server.RunWithCustomSocket with those backends wired like cmd/gostatsd (Backends + Runnables), 1-3 workers, real-clock flush interval 0.5-5ms, null/internal statser, datagram feed on/off, 6-10 start/stop cycles per case: when the server has returned every SendMetricsAsync it issued (counting wrapper) has exactly one callback and nothing crashed. FLUSHER: real MetricFlusher + BackendHandler (1-2 workers) + influxdb/datadog/graphite: a flush whose transport fails, then a healthy one. Oracles: callback count per SendMetricsAsync == 1 at quiescence (Run returned / no request in flight, no mock timers, goroutine count back to baseline, context cancelled afterwards); non-nil error whenever an observed batch or buffer was not delivered (no 2xx / failed or missing write); no error when every observed batch got a 2xx and nothing was cancelled; no panic; next flush's request observed. Non-trivial = at least one transport failure was observed and the request then ended in recovery, retry-window expiry or cancellation; distinct by (backend, script, cancellation, observed batch count class).")
	r.Assume("scripted net.Conn / ConnFactory / http.RoundTripper / CloudWatch API installed by the harness; the sender's real 1 s reconnect timer is waited out on logical conditions (next dial observed); whether a batch was delivered is taken from the responses the harness itself served")
	r.Assume("the fault scripts run the pooled http.Client with client-timeout 0; the wiring of client-timeout is checked separately (configuration phase + a silent real loopback server, where the client's real-clock timeout is waited out generously)")
	r.Assume("OTLP retries re-send a request whose body is already drained and New Relic insights/metrics retries re-gzip the gzipped payload: outside C16, batches are identified through Request.GetBody and repeated gunzip")

	if p := r.ReplayPayload(); p != nil {
		var rc replayCase
		if mon.ReplayCase(p, &rc) != nil {
			switch {
			case rc.Sender != nil:
				runSenderCase(r, *rc.Sender)
			case rc.HTTP != nil:
				runHTTPCase(r, *rc.HTTP)
			case rc.Flusher != nil:
				runFlusherCase(r, *rc.Flusher)
			case rc.Transport != nil:
				runTransportCase(r, *rc.Transport)
			case rc.Hung != nil:
				runHungCase(r, *rc.Hung)
			case rc.Net != nil:
				runNetCase(r, *rc.Net)
			case rc.Server != nil:
				runServerCase(r, *rc.Server)
			case rc.Seq != nil:
				runSeqCase(r, *rc.Seq)
			case rc.UDP:
				runUDPCase(r)
			}
		}
		r.Nontrivial("replay-a")
		r.Nontrivial("replay-b")
		return
	}

	// Phase A: socket backends (many scripts in parallel: each failed dial costs a real second).
	runSenderPhase(r)
	if r.Mine(0) {
		runUDPCase(r)
	}
	// Phase B: HTTP backends, sequential (the goroutine count is part of the quiescence condition).
	runHTTPPhase(r)
	// Phase B2: sequences of flushes on one long-lived client (earlier ones cancelled in flight / failed).
	runSeqPhase(r)
	// Phase C: flusher level.
	runFlusherPhase(r)
	// Phase D: the client timeout, the only thing that ends an attempt against a silent server.
	runTransportPhase(r)
	// Phase E: socket backends with their production dialer against a loopback listener that drops and restarts.
	runNetPhase(r)
	// Phase F: the real server, start/stop cycles with flush ticks in the shutdown window.
	runServerPhase(r)
	_ = context.Background
}
