//go:build verif

package c16

import (
	"context"
	"fmt"
	"sync/atomic"
	"time"

	"github.com/tilinna/clock"

	"github.com/atlassian/gostatsd"
	"github.com/atlassian/gostatsd/pkg/stats"
	"github.com/atlassian/gostatsd/pkg/statsd"

	"verif/mon"
)

// flusherCase: the real MetricFlusher + BackendHandler + one real backend on a mock clock. The
// transport fails until a flush has completed with errors, then it is healthy.
type flusherCase struct {
	ID      int    `json:"id"`
	Backend string `json:"backend"` // influxdb | datadog | graphite
	Workers int    `json:"workers"`
}

// flushSpy counts the flusher's NotifyFlush calls: the flusher's loop is sequential, so notification
// k+1 proves that flush k (including the wait for every backend callback) has returned.
type flushSpy struct {
	stats.Statser
	flushes atomic.Int64
}

func (s *flushSpy) NotifyFlush(ctx context.Context, d time.Duration) {
	s.flushes.Add(1)
	s.Statser.NotifyFlush(ctx, d)
}
func (s *flushSpy) WithTags(tags gostatsd.Tags) stats.Statser { return s }

func runFlusherOnce(r *mon.Run, c flusherCase, payload replayCase) (sig, detail string, inconclusive string) {
	logger := quietLogger()
	spy := &flushSpy{Statser: stats.NewNullStatser()}
	mock := clock.NewMock(time.Unix(1700000000, 0))
	ctx, cancel := context.WithCancel(stats.NewContext(clock.Context(context.Background(), mock), spy))
	defer cancel()
	// The backend's own Run gets a context that outlives the flusher's: stopping the sender while a flush
	// is still being submitted is a shutdown matter (send on a closed Sink), not part of C16.
	bctx, bcancel := context.WithCancel(context.Background())
	defer bcancel()

	var (
		be        gostatsd.Backend
		tspy      *transportSpy
		sw        *senderWorld
		failures  func() int
		healthy   func()
		recovered func() bool
	)
	switch c.Backend {
	case "influxdb", "datadog":
		hc := &httpCase{Backend: c.Backend, PerBatch: 100, MaxReq: 4, Window: "1s", Scripts: [][]string{{"ok"}}}
		if c.Backend == "influxdb" {
			hc.Backend = "influxdb-v2"
		}
		var err error
		be, tspy, err = buildBackend(hc, logger, func() {})
		if err != nil {
			return "", "", "flusher:setup"
		}
		tspy.setOverride("500")
		mark := 0
		failures = func() int { return tspy.summary().Failures }
		healthy = func() { mark = tspy.counter(); tspy.setOverride("ok") }
		recovered = func() bool { return tspy.okAfter(mark) }
	case "graphite":
		sw = &senderWorld{r: r, c: senderCase{Target: "graphite", Script: []step{{K: "W", I: 1}}}, runDone: make(chan struct{})}
		run, err := sw.setup()
		if err != nil {
			return "", "", "flusher:setup"
		}
		be = sw.backend
		go func() {
			defer close(sw.runDone)
			r.Guard("graphite:panic", payload, func() { run(bctx) })
		}()
		failures = func() int { sw.mu.Lock(); defer sw.mu.Unlock(); return sw.failedConns }
		healthy = func() {}
		recovered = func() bool { return sw.okAfter.Load() > 0 }
	default:
		return "", "", "flusher:unknown-backend"
	}

	af := statsd.AggregatorFactoryFunc(func() statsd.Aggregator {
		return statsd.NewMetricAggregator([]float64{90}, time.Hour, time.Hour, time.Hour, time.Hour, gostatsd.TimerSubtypes{}, 10)
	})
	backends := []gostatsd.Backend{be}
	bh := statsd.NewBackendHandler(backends, 4, c.Workers, 16, af)
	fl := statsd.NewMetricFlusher(time.Second, 0, false, bh, backends)
	done := make(chan struct{}, 2)
	go func() { r.Guard("flusher:panic", payload, func() { bh.Run(ctx) }); done <- struct{}{} }()
	go func() { r.Guard("flusher:panic", payload, func() { fl.Run(ctx) }); done <- struct{}{} }()
	if !mon.WaitUntil(callbackWatch, func() bool { return mock.Len() >= 1 }) {
		return "", "", "flusher:ticker-not-registered"
	}
	bh.DispatchMetricMap(ctx, gaugeMap("f", 8, ""))

	// clock driver: ticks and back-off timers alike
	stop := make(chan struct{})
	drvDone := make(chan struct{})
	go func() {
		defer close(drvDone)
		for {
			select {
			case <-stop:
				return
			default:
			}
			if mock.Len() > 0 {
				mock.AddNext()
			}
			time.Sleep(50 * time.Microsecond)
		}
	}()
	defer func() {
		// stop the flusher first and only then the backend's sender (see bctx above)
		cancel()
		stopped := true
		for i := 0; i < 2; i++ {
			select {
			case <-done:
			case <-time.After(callbackWatch):
				stopped = false
			}
		}
		close(stop)
		<-drvDone
		if !stopped {
			r.Inconclusive("flusher:did-not-stop")
			return
		}
		bcancel()
		if sw != nil {
			select {
			case <-sw.runDone:
			case <-time.After(settleWatch):
			}
		}
	}()

	// phase A: the transport fails; the flush that met the failure must complete (its callback carries errors)
	if !mon.WaitUntil(callbackWatch, func() bool { return failures() >= 1 }) {
		return "", "", "flusher:no-failure-observed"
	}
	j := spy.flushes.Load()
	if !mon.WaitUntil(callbackWatch, func() bool { return spy.flushes.Load() >= j+1 }) {
		return "flusher:blocked-after-failed-flush:" + c.Backend,
			fmt.Sprintf("%d worker(s), backend %s: the transport failed during flush %d (failures observed: %d) and no further flush began within 20s of mock-clock driving", c.Workers, c.Backend, j, failures()), ""
	}
	// phase B: healthy transport; the following flush's request must be observed
	healthy()
	bh.DispatchMetricMap(ctx, gaugeMap("h", 8, ""))
	k := spy.flushes.Load()
	if !mon.WaitUntil(callbackWatch, func() bool { return recovered() && spy.flushes.Load() >= k+1 }) {
		return "flusher:next-flush-not-attempted:" + c.Backend,
			fmt.Sprintf("%d worker(s), backend %s: after the failed flush no successful request was observed (recovered=%v) or the flusher stopped flushing (flushes %d -> %d)", c.Workers, c.Backend, recovered(), k, spy.flushes.Load()), ""
	}
	r.Event("flusher_flushes", int(spy.flushes.Load()))
	return "", "", ""
}

func runFlusherCase(r *mon.Run, c flusherCase) {
	payload := replayCase{Flusher: &c}
	r.Case("flusher %s", js(c))
	sig, detail, inc := runFlusherOnce(r, c, payload)
	if sig != "" {
		// bounded progress is the property here: reproduce once before reporting
		sig2, detail2, _ := runFlusherOnce(r, c, payload)
		if sig2 != "" {
			r.Violation(sig2, detail2, payload)
		} else {
			r.Inconclusive("flusher:not-reproduced:" + sig)
		}
		_ = detail
	}
	if inc != "" {
		r.Inconclusive(inc)
		return
	}
	r.Eval(1)
	r.Event("scripts:flusher-"+c.Backend, 1)
	r.Nontrivial(fmt.Sprintf("flusher|%s|%d", c.Backend, c.Workers))
}

func runFlusherPhase(r *mon.Run) {
	var cases []flusherCase
	for _, be := range []string{"influxdb", "datadog", "graphite"} {
		for _, w := range []int{1, 2} {
			cases = append(cases, flusherCase{ID: len(cases), Backend: be, Workers: w})
		}
	}
	for i, c := range cases {
		if r.Mine(i + 3) {
			runFlusherCase(r, c)
		}
	}
}
