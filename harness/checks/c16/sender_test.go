//go:build verif

package c16

import (
	"bytes"
	"context"
	"errors"
	"fmt"
	"math/rand"
	"net"
	"os"
	"regexp"
	"strings"
	"sync"
	"sync/atomic"
	"time"

	"github.com/spf13/viper"

	"github.com/atlassian/gostatsd"
	"github.com/atlassian/gostatsd/pkg/backends/graphite"
	"github.com/atlassian/gostatsd/pkg/backends/sender"
	"github.com/atlassian/gostatsd/pkg/backends/statsdaemon"

	"verif/mon"
)

// ---------------------------------------------------------------------------------------------
// case description

// step is the scripted outcome of one dial.
type step struct {
	K string `json:"k"`           // "F" dial fails | "W" dial ok, the I-th write on that connection fails | "H" dial ok, healthy
	I int    `json:"i,omitempty"` // for W
}

func (s step) String() string {
	if s.K == "W" {
		return fmt.Sprintf("W%d", s.I)
	}
	return s.K
}

func scriptString(sc []step) string {
	if len(sc) == 0 {
		return "-"
	}
	parts := make([]string, len(sc))
	for i, s := range sc {
		parts[i] = s.String()
	}
	return strings.Join(parts, ",")
}

type streamSpec struct {
	Bufs int `json:"bufs"`
	At   int `json:"at"` // 0 = submitted before Run starts, n = submitted during the n-th dial
}

type cancelSpec struct {
	Kind   string `json:"kind,omitempty"`   // "" | "stream" | "run"
	Stream int    `json:"stream,omitempty"` // index into Streams
	At     int    `json:"at,omitempty"`     // dial number; 0 = before Run starts (stream only)
	First  bool   `json:"first,omitempty"`  // cancel before (instead of after) the submissions of that dial
}

func (c cancelSpec) String() string {
	if c.Kind == "" {
		return "none"
	}
	return fmt.Sprintf("%s@%d", c.Kind, c.At)
}

type senderCase struct {
	ID      int          `json:"id"`
	Target  string       `json:"target"` // sender | graphite | statsdaemon-tcp | statsdaemon-pkt
	Script  []step       `json:"script"`
	Streams []streamSpec `json:"streams"`
	Cancel  cancelSpec   `json:"cancel"`
	Note    string       `json:"note,omitempty"`
}

// ---------------------------------------------------------------------------------------------
// scripted connection

var (
	errScriptedDial  = errors.New("scripted: connection refused")
	errScriptedWrite = errors.New("scripted: broken pipe")
	tokRe            = regexp.MustCompile(`s(\d+)_g(\d+)`)
)

type fakeAddr struct{}

func (fakeAddr) Network() string { return "scripted" }
func (fakeAddr) String() string  { return "scripted" }

type fakeConn struct {
	w      *senderWorld
	n      int // dial number
	failAt int

	mu     sync.Mutex
	writes int
	failed bool
	closed bool
}

func (c *fakeConn) Write(p []byte) (int, error) {
	data := string(p) // the sender resets the buffer as soon as Write returns
	c.mu.Lock()
	c.writes++
	fail := c.failAt > 0 && c.writes >= c.failAt
	if fail {
		c.failed = true
	}
	c.mu.Unlock()
	c.w.onWrite(c, data, fail)
	if fail {
		return 0, errScriptedWrite
	}
	return len(p), nil
}

func (c *fakeConn) Read(p []byte) (int, error) { return 0, errors.New("scripted: read not supported") }
func (c *fakeConn) Close() error {
	c.mu.Lock()
	c.closed = true
	c.mu.Unlock()
	c.w.progress.Add(1)
	return nil
}
func (c *fakeConn) LocalAddr() net.Addr                { return fakeAddr{} }
func (c *fakeConn) RemoteAddr() net.Addr               { return fakeAddr{} }
func (c *fakeConn) SetDeadline(t time.Time) error      { return nil }
func (c *fakeConn) SetReadDeadline(t time.Time) error  { return nil }
func (c *fakeConn) SetWriteDeadline(t time.Time) error { return nil }

func (c *fakeConn) usable() bool {
	c.mu.Lock()
	defer c.mu.Unlock()
	return !c.failed && !c.closed
}

// ---------------------------------------------------------------------------------------------
// one stream = one flush request

type streamState struct {
	id   int
	kind string // user | filler | sentinel
	bufs int
	at   int

	ctx    context.Context
	cancel context.CancelFunc

	submitted atomic.Bool
	cancelled atomic.Bool
	calls     atomic.Int32
	afterStop atomic.Bool // the (first) callback ran after the Run context had been cancelled

	mu        sync.Mutex
	errs      []error
	want      []string
	delivered map[string]bool
	hit       bool // a write carrying data of this stream failed
}

func isCancellation(errs []error) bool {
	for _, e := range errs {
		if e != nil && (errors.Is(e, context.Canceled) || errors.Is(e, context.DeadlineExceeded)) {
			return true
		}
	}
	return false
}

func (s *streamState) isDelivered() bool {
	s.mu.Lock()
	defer s.mu.Unlock()
	for _, t := range s.want {
		if !s.delivered[t] {
			return false
		}
	}
	return true
}

type senderWorld struct {
	r *mon.Run
	c senderCase

	mu          sync.Mutex // dials, lastOK, conn, streams
	dials       int
	failedDials int
	failedConns int
	lastOK      bool
	conn        *fakeConn
	streams     []*streamState

	subMu        sync.Mutex // serialises submissions; guards runCancelled / stopped
	runCancelled bool
	stopped      bool

	runCancel     context.CancelFunc
	runStopIssued atomic.Bool // set before the Run context is cancelled (by the script or by the harness at the end)
	runDone       chan struct{}
	progress      atomic.Int64
	writes        atomic.Int64
	cbSinceDial   atomic.Int64 // callbacks since the last dial (the sender recycles a connection after 100 streams)
	okAfter       atomic.Int64 // successful writes on a connection opened after some failure

	submit  func(s *streamState) error
	pad     string
	backend gostatsd.Backend // the real client, when the target is one

	logMu sync.Mutex
	log   []string
}

func (w *senderWorld) logf(format string, a ...interface{}) {
	w.logMu.Lock()
	if len(w.log) < 120 {
		w.log = append(w.log, fmt.Sprintf(format, a...))
	}
	w.logMu.Unlock()
}

func (w *senderWorld) streamByID(id int) *streamState {
	w.mu.Lock()
	defer w.mu.Unlock()
	if id >= 0 && id < len(w.streams) {
		return w.streams[id]
	}
	return nil
}

func (w *senderWorld) onWrite(c *fakeConn, data string, fail bool) {
	w.writes.Add(1)
	seen := map[int]bool{}
	for _, m := range tokRe.FindAllStringSubmatch(data, -1) {
		var id int
		fmt.Sscanf(m[1], "%d", &id)
		s := w.streamByID(id)
		if s == nil {
			continue
		}
		s.mu.Lock()
		if fail {
			s.hit = true
		} else {
			s.delivered[m[0]] = true
		}
		s.mu.Unlock()
		seen[id] = true
	}
	ids := []int{}
	for id := range seen {
		ids = append(ids, id)
	}
	if fail {
		w.mu.Lock()
		w.failedConns++
		w.mu.Unlock()
		w.logf("dial%d write#%d streams%v FAILS", c.n, c.writes, ids)
	} else {
		w.mu.Lock()
		if w.failedDials+w.failedConns > 0 {
			w.okAfter.Add(1)
		}
		w.mu.Unlock()
		w.logf("dial%d write streams%v ok", c.n, ids)
	}
	w.progress.Add(1)
}

func (w *senderWorld) newStream(kind string, bufs, at int) *streamState {
	w.mu.Lock()
	defer w.mu.Unlock()
	s := &streamState{id: len(w.streams), kind: kind, bufs: bufs, at: at, delivered: map[string]bool{}}
	s.ctx, s.cancel = context.WithCancel(context.Background())
	for k := 0; k < bufs; k++ {
		s.want = append(s.want, fmt.Sprintf("s%d_g%d", s.id, k))
	}
	w.streams = append(w.streams, s)
	return s
}

func (w *senderWorld) callback(s *streamState) gostatsd.SendCallback {
	return func(errs []error) {
		// the argument is stored before the count is published (idle() and the verdict poll the count)
		s.mu.Lock()
		if s.calls.Load() == 0 {
			s.errs = append([]error(nil), errs...)
			s.afterStop.Store(w.runStopIssued.Load())
		}
		s.calls.Add(1)
		s.mu.Unlock()
		w.logf("callback stream%d errs=%v", s.id, errStrings(errs))
		w.cbSinceDial.Add(1)
		w.progress.Add(1)
	}
}

// doSubmit hands the stream to the code under test. Submissions are serialised; the driver never
// submits once the Run context has been cancelled (the sender must not be used after that).
func (w *senderWorld) doSubmit(s *streamState, fromDriver bool) bool {
	w.subMu.Lock()
	defer w.subMu.Unlock()
	if fromDriver && (w.runCancelled || w.stopped) {
		return false
	}
	s.submitted.Store(true)
	w.logf("submit stream%d (%s, %d bufs)", s.id, s.kind, s.bufs)
	if err := w.submit(s); err != nil {
		s.submitted.Store(false) // never handed over: it must not be counted as a request without callback
		w.r.Inconclusive("sender:harness-sink-full")
	}
	w.progress.Add(1)
	return true
}

func (w *senderWorld) scriptedCancel(n int) {
	c := w.c.Cancel
	if c.Kind == "" || c.At != n {
		return
	}
	switch c.Kind {
	case "stream":
		if s := w.streamByID(c.Stream); s != nil {
			s.cancelled.Store(true)
			w.logf("cancel stream%d at dial %d", s.id, n)
			s.cancel()
		}
	case "run":
		w.subMu.Lock()
		w.runCancelled = true
		w.subMu.Unlock()
		w.logf("cancel Run at dial %d", n)
		w.runStopIssued.Store(true)
		w.runCancel()
	}
}

// dial is the ConnFactory given to the code under test. It runs on the sender's goroutine, so the
// actions scheduled "during dial n" happen at a precisely known point of the sender's execution.
func (w *senderWorld) dial() (net.Conn, error) {
	w.mu.Lock()
	w.dials++
	n := w.dials
	st := step{K: "H"}
	if n <= len(w.c.Script) {
		st = w.c.Script[n-1]
	}
	var subs []*streamState
	for _, s := range w.streams {
		if s.kind == "user" && s.at == n && !s.submitted.Load() {
			subs = append(subs, s)
		}
	}
	w.mu.Unlock()
	w.cbSinceDial.Store(0)
	w.progress.Add(1)

	if w.c.Cancel.First {
		w.scriptedCancel(n)
	}
	for _, s := range subs {
		w.doSubmit(s, false)
	}
	if !w.c.Cancel.First {
		w.scriptedCancel(n)
	}

	w.mu.Lock()
	defer w.mu.Unlock()
	if st.K == "F" {
		w.lastOK = false
		w.conn = nil
		w.failedDials++
		w.logf("dial%d FAILS", n)
		return nil, errScriptedDial
	}
	c := &fakeConn{w: w, n: n}
	if st.K == "W" {
		c.failAt = st.I
	}
	w.lastOK = true
	w.conn = c
	w.logf("dial%d ok (%s)", n, st)
	return c, nil
}

// idle: the sender sits on a healthy connection and every submitted request has been called back, so
// nothing more can happen without new input.
func (w *senderWorld) idle() bool {
	w.mu.Lock()
	defer w.mu.Unlock()
	if !w.lastOK || w.conn == nil || !w.conn.usable() || w.cbSinceDial.Load() >= 100 {
		return false
	}
	for _, s := range w.streams {
		if (s.submitted.Load() || s.kind != "user") && s.calls.Load() < 1 {
			return false
		}
	}
	return true
}

// stalled = no dial, write, close or callback during senderStall AND during senderStallPolls polls of this
// loop (so that a starved process does not look stalled); the longest legitimate silence is the 1 s reconnect timer
const (
	senderStall      = 8 * time.Second
	senderStallPolls = 3000
)

func (w *senderWorld) waitIdle() string {
	last := w.progress.Load()
	lastChange := time.Now()
	polls := 0
	for i := 0; ; i++ {
		w.subMu.Lock()
		rc := w.runCancelled
		w.subMu.Unlock()
		if rc {
			return "cancelled"
		}
		select {
		case <-w.runDone:
			return "rundone"
		default:
		}
		if w.idle() {
			return "idle"
		}
		if p := w.progress.Load(); p != last {
			last, lastChange, polls = p, time.Now(), 0
		} else if polls++; polls > senderStallPolls && time.Since(lastChange) > senderStall {
			return "stalled"
		}
		if i < 100 {
			time.Sleep(50 * time.Microsecond)
		} else {
			time.Sleep(time.Millisecond)
		}
	}
}

// ---------------------------------------------------------------------------------------------
// targets

func (w *senderWorld) setup() (run func(context.Context), err error) {
	logger := quietLogger()
	switch w.c.Target {
	case "sender":
		capacity := len(w.c.Streams) + 8
		snd := &sender.Sender{
			Logger:       logger,
			ConnFactory:  w.dial,
			Sink:         make(chan sender.Stream, capacity),
			BufPool:      sync.Pool{New: func() interface{} { return new(bytes.Buffer) }},
			WriteTimeout: time.Second,
		}
		w.submit = func(s *streamState) error {
			ch := make(chan *bytes.Buffer, s.bufs)
			for _, tok := range s.want {
				b := snd.GetBuffer()
				b.WriteString(tok + "\n")
				ch <- b
			}
			close(ch)
			select {
			case snd.Sink <- sender.Stream{Ctx: s.ctx, Cb: w.callback(s), Buf: ch}:
				return nil
			default:
				return errors.New("sink full")
			}
		}
		return snd.Run, nil
	case "graphite":
		v := viper.New()
		v.Set("graphite.address", "127.0.0.1:1")
		v.Set("graphite.write_timeout", "1s")
		be, err := graphite.NewClientFromViper(v, logger, nil)
		if err != nil {
			return nil, err
		}
		cl := be.(*graphite.Client)
		cl.VerifSetConnFactory(w.dial)
		w.backend = be
		w.submit = func(s *streamState) error {
			cl.SendMetricsAsync(s.ctx, gaugeMap(fmt.Sprintf("s%d", s.id), s.bufs, ""), w.callback(s))
			return nil
		}
		return cl.Run, nil
	case "statsdaemon-tcp", "statsdaemon-pkt":
		v := viper.New()
		v.Set("statsdaemon.address", "127.0.0.1:1")
		v.Set("statsdaemon.tcp_transport", w.c.Target == "statsdaemon-tcp")
		be, err := statsdaemon.NewClientFromViper(v, logger, nil)
		if err != nil {
			return nil, err
		}
		cl := be.(*statsdaemon.Client)
		cl.VerifSetConnFactory(w.dial)
		w.backend = be
		if w.c.Target == "statsdaemon-pkt" {
			w.pad = "_" + strings.Repeat("x", 800) // one line per 1472-byte packet => one buffer per gauge
		}
		w.submit = func(s *streamState) error {
			cl.SendMetricsAsync(s.ctx, gaugeMap(fmt.Sprintf("s%d", s.id), s.bufs, w.pad), w.callback(s))
			return nil
		}
		return cl.Run, nil
	}
	return nil, fmt.Errorf("unknown target %q", w.c.Target)
}

// ---------------------------------------------------------------------------------------------
// one case

func runSenderCase(r *mon.Run, c senderCase) {
	payload := replayCase{Sender: &c}
	r.Case("sender %s", js(c))
	w := &senderWorld{r: r, c: c, runDone: make(chan struct{})}
	run, err := w.setup()
	if err != nil {
		r.Inconclusive("sender:setup:" + c.Target)
		return
	}
	for _, sp := range c.Streams {
		w.newStream("user", sp.Bufs, sp.At)
	}
	ctx, cancel := context.WithCancel(context.Background())
	w.runCancel = cancel
	defer cancel()

	// dial 0 = before Run starts
	if c.Cancel.First {
		w.scriptedCancel(0)
	}
	for _, s := range w.streams {
		if s.at == 0 {
			w.doSubmit(s, false)
		}
	}
	if !c.Cancel.First {
		w.scriptedCancel(0)
	}

	var panicked atomic.Bool
	go func() {
		defer close(w.runDone)
		if r.Guard(c.Target+":panic", payload, func() { run(ctx) }) {
			panicked.Store(true)
		}
	}()

	fillers, maxFillers := 0, 3*len(c.Script)+6
	sentinel := false
	state := ""
	for {
		state = w.waitIdle()
		if state != "idle" {
			break
		}
		w.mu.Lock()
		pending := w.dials <= len(c.Script)
		w.mu.Unlock()
		if pending {
			if fillers >= maxFillers {
				state = "unreachable"
				break
			}
			fillers++
			w.doSubmit(w.newStream("filler", 3, -1), true)
			continue
		}
		if !sentinel {
			sentinel = true
			w.doSubmit(w.newStream("sentinel", 2, -1), true)
			continue
		}
		break
	}

	// quiescence: cancel Run and wait for it to return; after that nothing can call back any more
	w.subMu.Lock()
	w.stopped = true
	w.subMu.Unlock()
	w.runStopIssued.Store(true)
	cancel()
	runReturned := true
	select {
	case <-w.runDone:
	case <-time.After(callbackWatch):
		runReturned = false
	}

	// ---- verdict (the violation class is the shape of the script: W1..W3 collapse to W)
	full := scriptString(c.Script)
	class := strings.NewReplacer("W1", "W", "W2", "W", "W3", "W").Replace(full)
	w.mu.Lock()
	streams := append([]*streamState(nil), w.streams...)
	dials, failedDials, failedConns := w.dials, w.failedDials, w.failedConns
	w.mu.Unlock()
	w.logMu.Lock()
	log := append([]string(nil), w.log...)
	w.logMu.Unlock()
	detail := func(s *streamState, what string) string {
		return fmt.Sprintf("%s: stream %d (%s, %d buffers, submitted at dial %d) %s; script %s, cancel %s, streams %+v; state at end %q, Run returned %v; log: %s",
			c.Target, s.id, s.kind, s.bufs, s.at, what, full, c.Cancel, c.Streams, state, runReturned, strings.Join(log, " | "))
	}
	callbacks, submitted, missing := 0, 0, 0
	for _, s := range streams {
		if !s.submitted.Load() {
			continue
		}
		submitted++
		n := int(s.calls.Load())
		callbacks += n
		switch {
		case n == 0:
			missing++
			if runReturned {
				r.Violation(c.Target+":callback-missing:"+class, detail(s, "never got its callback although the sender's Run has returned"), payload)
			} else {
				r.Violation(c.Target+":callback-never:run-cancel:"+class, detail(s, "has no callback and Run did not return within 20s of the cancellation of its context"), payload)
			}
		case n > 1:
			r.Violation(c.Target+":callback-twice:"+class, detail(s, fmt.Sprintf("got its callback %d times", n)), payload)
		default:
			s.mu.Lock()
			errs, hit := s.errs, s.hit
			s.mu.Unlock()
			// A request whose own context was cancelled may be truncated by the producer (statsdaemon stops
			// generating buffers): that is not a transport failure, so an error is demanded only if a write failed.
			producerMayStop := c.Target != "sender" && s.cancelled.Load()
			if !s.isDelivered() && !hasErr(errs) && (hit || !producerMayStop) {
				r.Violation(c.Target+":no-error-on-undelivered:"+class, detail(s, fmt.Sprintf("was not fully written (write failed on its data: %v) but its callback carried no error (%v)", hit, errStrings(errs))), payload)
			}
			// "answered when the connection recovers or the request is cancelled": a request that nobody cancelled,
			// answered while Run was still wanted, must not carry a cancellation and must have been written unless a
			// write of its data failed.
			if !s.cancelled.Load() && !s.afterStop.Load() {
				if isCancellation(errs) {
					r.Violation(c.Target+":cancelled-but-never-cancelled:"+class, detail(s, fmt.Sprintf("was answered with %v although neither its context nor the sender's was cancelled", errStrings(errs))), payload)
				} else if !s.isDelivered() && !hit {
					r.Violation(c.Target+":dropped-without-failure:"+class, detail(s, fmt.Sprintf("was answered (%v) without having been written and without a failed write of its data", errStrings(errs))), payload)
				}
			}
			if s.isDelivered() && hasErr(errs) {
				r.Event("error_although_delivered:"+c.Target, 1)
			}
		}
	}
	switch {
	case panicked.Load():
		// recorded by Guard
	case !runReturned && missing == 0:
		r.Inconclusive(c.Target + ":run-not-returned")
	case state == "stalled" && missing == 0:
		r.Inconclusive(c.Target + ":stalled")
		if os.Getenv("C16_DEBUG") != "" {
			fmt.Fprintf(os.Stderr, "STALLED %s\n  %s\n", js(c), strings.Join(log, "\n  "))
		}
	case state == "unreachable":
		r.Inconclusive(c.Target + ":script-unreachable")
	}

	r.Eval(1)
	r.Event("scripts:"+c.Target, 1)
	r.Event("callbacks", callbacks)
	r.Event("attempts", int(w.writes.Load()))
	r.Event("dials", dials)
	r.Event("flush_requests", submitted)
	failures := failedDials + failedConns
	cancelled := c.Cancel.Kind != ""
	if failures > 0 && (w.okAfter.Load() > 0 || cancelled) {
		r.Nontrivial(fmt.Sprintf("%s|%s|%s|%d", c.Target, full, c.Cancel, len(c.Streams)))
	}
	if failures > 0 && r.WantSample() && (c.ID%7 == 3 || c.Note != "") && senderSamples.Add(1) <= 3 { // leave room for the HTTP samples
		r.Sample(map[string]interface{}{"case": c, "state_at_end": state, "dials": dials, "callbacks": callbacks, "log": log})
	}
}

var senderSamples atomic.Int32

// ---------------------------------------------------------------------------------------------
// enumeration

func allDialScripts(maxLen, maxF int) [][]step {
	alphabet := []step{{K: "F"}, {K: "W", I: 1}, {K: "W", I: 2}, {K: "W", I: 3}}
	out := [][]step{{}}
	var rec func(prefix []step, f int)
	rec = func(prefix []step, f int) {
		if len(prefix) == maxLen {
			return
		}
		for _, a := range alphabet {
			nf := f
			if a.K == "F" {
				nf++
			}
			if nf > maxF {
				continue
			}
			s := append(append([]step(nil), prefix...), a)
			out = append(out, s)
			rec(s, nf)
		}
	}
	rec(nil, 0)
	return out
}

func drawLayout(rng *rand.Rand, scriptLen int) []streamSpec {
	k := 1 + rng.Intn(3)
	ats := make([]int, k)
	for i := range ats {
		ats[i] = rng.Intn(scriptLen + 2)
	}
	// submission order = index order: keep the dials non-decreasing
	for i := 1; i < k; i++ {
		for j := i; j > 0 && ats[j] < ats[j-1]; j-- {
			ats[j], ats[j-1] = ats[j-1], ats[j]
		}
	}
	out := make([]streamSpec, k)
	for i := range out {
		out[i] = streamSpec{Bufs: 1 + rng.Intn(3), At: ats[i]}
	}
	return out
}

func cancelOptions(rng *rand.Rand, scriptLen, nStreams int) []cancelSpec {
	out := []cancelSpec{{}}
	for n := 1; n <= scriptLen+1; n++ {
		out = append(out, cancelSpec{Kind: "run", At: n, First: rng.Intn(2) == 0})
	}
	for n := 0; n <= scriptLen+1; n++ {
		out = append(out, cancelSpec{Kind: "stream", At: n, Stream: rng.Intn(nStreams), First: rng.Intn(2) == 0})
	}
	return out
}

func senderCases(r *mon.Run) []senderCase {
	rng := r.RandGlobal("sender-layouts")
	var cases []senderCase
	add := func(c senderCase) {
		c.ID = len(cases)
		cases = append(cases, c)
	}
	F, W := step{K: "F"}, func(i int) step { return step{K: "W", I: i} }

	// fixed regression scripts, direct sender and real clients
	for _, target := range []string{"sender", "graphite", "statsdaemon-tcp", "statsdaemon-pkt"} {
		// D9: dial fails while idle; A's write fails; the re-dial fails while B is queued
		add(senderCase{Target: target, Script: []step{F, W(1), F}, Streams: []streamSpec{{1, 2}, {1, 3}}, Note: "D9"})
		add(senderCase{Target: target, Script: []step{F, W(1), F}, Streams: []streamSpec{{2, 2}, {1, 2}, {2, 3}}, Note: "D9-b"})
		add(senderCase{Target: target, Script: []step{F, W(1), F}, Streams: []streamSpec{{1, 2}, {1, 3}}, Cancel: cancelSpec{Kind: "stream", Stream: 0, At: 3}, Note: "D9-cancel-held"})
		add(senderCase{Target: target, Script: []step{F, W(1), F}, Streams: []streamSpec{{1, 2}, {1, 3}}, Cancel: cancelSpec{Kind: "run", At: 3}, Note: "D9-cancel-run"})
		// the five situations of sender_test.go
		add(senderCase{Target: target, Script: []step{F}, Streams: []streamSpec{{1, 0}}, Note: "queued-during-failed-dial"})
		add(senderCase{Target: target, Script: []step{F}, Streams: []streamSpec{{1, 0}}, Cancel: cancelSpec{Kind: "stream", Stream: 0, At: 1}, Note: "cancelled-while-held"})
		add(senderCase{Target: target, Script: []step{F}, Streams: []streamSpec{{1, 0}, {1, 0}}, Cancel: cancelSpec{Kind: "run", At: 1}, Note: "run-cancel-with-queue"})
		add(senderCase{Target: target, Script: []step{W(1)}, Streams: []streamSpec{{2, 0}, {1, 0}}, Note: "write-fails-then-recovers"})
		add(senderCase{Target: target, Script: []step{}, Streams: []streamSpec{{3, 0}, {1, 1}}, Cancel: cancelSpec{Kind: "stream", Stream: 0, At: 0}, Note: "healthy-with-cancelled-request"})
	}
	// 100 streams per connection: reconnect without a failure, the 101st stream waits out a failed dial
	many := make([]streamSpec, 101)
	for i := range many {
		many[i] = streamSpec{Bufs: 1, At: 0}
	}
	add(senderCase{Target: "sender", Script: []step{{K: "H"}, F}, Streams: many, Note: "100-streams-per-connection"})
	// stale stream-cancel channel: A held across a failed dial, completed on the next connection, which is then
	// recycled after 100 streams; A's context is cancelled while the sender waits, idle, for the next dial
	many2 := make([]streamSpec, 100)
	for i := range many2 {
		many2[i] = streamSpec{Bufs: 1, At: 0}
	}
	add(senderCase{Target: "sender", Script: []step{W(1), F, {K: "H"}, F}, Streams: many2, Cancel: cancelSpec{Kind: "stream", Stream: 0, At: 4, First: true}, Note: "stale-stream-cancel"})

	// exhaustive dial scripts x cancellation points x drawn layouts (direct sender)
	maxLen, maxF, layouts := 4, 2, 1
	if r.Thorough() {
		maxLen, maxF, layouts = 4, 4, 6
	}
	scripts := allDialScripts(maxLen, maxF)
	r.Extra("exhaustive_dial_scripts_upto", fmt.Sprint(maxLen))
	r.Extra("dial_scripts", fmt.Sprint(len(scripts)))
	for _, sc := range scripts {
		for l := 0; l < layouts; l++ {
			probe := drawLayout(rng, len(sc))
			for _, co := range cancelOptions(rng, len(sc), len(probe)) {
				streams := probe
				if co.Kind != "" || l > 0 {
					streams = drawLayout(rng, len(sc))
					if co.Kind == "stream" {
						co.Stream = rng.Intn(len(streams))
					}
				}
				add(senderCase{Target: "sender", Script: sc, Streams: streams, Cancel: co})
			}
		}
	}

	// the real clients: a fixed family of scripts, each with every cancellation kind
	clientScripts := allDialScripts(2, 2)
	if r.Thorough() {
		clientScripts = allDialScripts(3, 2)
	}
	for _, target := range []string{"graphite", "statsdaemon-tcp", "statsdaemon-pkt"} {
		for _, sc := range clientScripts {
			for _, co := range cancelOptions(rng, len(sc), 1) {
				streams := drawLayout(rng, len(sc))
				if co.Kind == "stream" {
					co.Stream = rng.Intn(len(streams))
				}
				add(senderCase{Target: target, Script: sc, Streams: streams, Cancel: co})
			}
		}
	}
	return cases
}

func runSenderPhase(r *mon.Run) {
	cases := senderCases(r)
	var mine []int
	for i := range cases {
		if r.Mine(i) {
			mine = append(mine, i)
		}
	}
	r.Extra("sender_cases_total", len(mine))
	parallel(mine, 96, func(i int) { runSenderCase(r, cases[i]) })
}

// ---------------------------------------------------------------------------------------------
// statsdaemon over a real loopback UDP socket (healthy path)

func runUDPCase(r *mon.Run) {
	payload := replayCase{UDP: true}
	r.Case("statsdaemon-udp real socket")
	pc, err := net.ListenPacket("udp", "127.0.0.1:0")
	if err != nil {
		r.Inconclusive("statsdaemon-udp:listen")
		return
	}
	defer pc.Close()
	var datagrams atomic.Int64
	go func() {
		buf := make([]byte, 65536)
		for {
			if _, _, err := pc.ReadFrom(buf); err != nil {
				return
			}
			datagrams.Add(1)
		}
	}()
	v := viper.New()
	v.Set("statsdaemon.address", pc.LocalAddr().String())
	be, err := statsdaemon.NewClientFromViper(v, quietLogger(), nil)
	if err != nil {
		r.Inconclusive("statsdaemon-udp:factory")
		return
	}
	cl := be.(*statsdaemon.Client)
	ctx, cancel := context.WithCancel(context.Background())
	defer cancel()
	done := make(chan struct{})
	go func() {
		defer close(done)
		r.Guard("statsdaemon-udp:panic", payload, func() { cl.Run(ctx) })
	}()
	var probes []*probe
	for i, n := range []int{0, 1, 40, 3, 120} {
		p := &probe{}
		probes = append(probes, p)
		sctx := context.Background()
		if i == 3 { // a request whose own context is already cancelled
			c2, cancel2 := context.WithCancel(context.Background())
			cancel2()
			sctx = c2
		}
		cl.SendMetricsAsync(sctx, gaugeMap(fmt.Sprintf("s%d", i), n, strings.Repeat("y", 60)), p.cb)
	}
	ok := mon.WaitUntil(callbackWatch, func() bool {
		for _, p := range probes {
			if p.calls.Load() < 1 {
				return false
			}
		}
		return true
	})
	cancel()
	select {
	case <-done:
	case <-time.After(callbackWatch):
		r.Inconclusive("statsdaemon-udp:run-not-returned")
		return
	}
	for i, p := range probes {
		switch n := p.calls.Load(); {
		case n == 0:
			r.Violation("statsdaemon-udp:callback-missing", fmt.Sprintf("flush %d over a healthy loopback UDP socket never got its callback (all called back in time: %v)", i, ok), payload)
		case n > 1:
			r.Violation("statsdaemon-udp:callback-twice", fmt.Sprintf("flush %d over a healthy loopback UDP socket got its callback %d times", i, n), payload)
		}
	}
	r.Eval(1)
	r.Event("scripts:statsdaemon-udp", 1)
	r.Event("callbacks", len(probes))
	r.Event("udp_datagrams_received", int(datagrams.Load()))
}
