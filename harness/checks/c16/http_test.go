//go:build verif

package c16

import (
	"bytes"
	"compress/gzip"
	"context"
	"crypto/sha1"
	"errors"
	"fmt"
	"io"
	"net/http"
	"os"
	"regexp"
	"runtime"
	"strings"
	"sync"
	"sync/atomic"
	"time"

	awscw "github.com/aws/aws-sdk-go-v2/service/cloudwatch"
	"github.com/sirupsen/logrus"
	"github.com/spf13/viper"
	"github.com/tilinna/clock"

	"github.com/atlassian/gostatsd"
	"github.com/atlassian/gostatsd/pkg/backends/cloudwatch"
	"github.com/atlassian/gostatsd/pkg/backends/datadog"
	"github.com/atlassian/gostatsd/pkg/backends/influxdb"
	"github.com/atlassian/gostatsd/pkg/backends/newrelic"
	"github.com/atlassian/gostatsd/pkg/backends/null"
	"github.com/atlassian/gostatsd/pkg/backends/otlp"
	"github.com/atlassian/gostatsd/pkg/backends/stdout"
	"github.com/atlassian/gostatsd/pkg/transport"

	"verif/mon"
)

// ---------------------------------------------------------------------------------------------
// case description

type httpCase struct {
	ID       int        `json:"id"`
	Backend  string     `json:"backend"` // datadog | influxdb-v1 | influxdb-v2 | newrelic-infra | newrelic-insights | newrelic-metrics | otlp | cloudwatch | stdout | null
	Series   int        `json:"series"`
	PerBatch int        `json:"per_batch"`
	MaxReq   int        `json:"max_requests"`
	Window   string     `json:"window"`                // max-request-elapsed-time ("-1" = retries disabled)
	Retries  int        `json:"max_retries,omitempty"` // otlp
	Scripts  [][]string `json:"scripts"`               // outcome of attempt a of batch b = Scripts[min(b,last)][min(a,last)]
	Cancel   string     `json:"cancel,omitempty"`      // "" | before | attempt | timer | late
	N        int        `json:"n,omitempty"`           // n-th request (attempt) / n-th observed back-off (timer)
	Compress bool       `json:"compress,omitempty"`
	Reps     int        `json:"reps,omitempty"`
	Class    string     `json:"class"` // how the script ends: success | expiry | noretry | maxretries | api-error | cancel-* | trivial
}

func family(backend string) string { return strings.SplitN(backend, "-", 2)[0] }

func (c *httpCase) outcome(batch, attempt int) string {
	if len(c.Scripts) == 0 {
		return "ok"
	}
	s := c.Scripts[minInt(batch, len(c.Scripts)-1)]
	if len(s) == 0 {
		return "ok"
	}
	return s[minInt(attempt, len(s)-1)]
}

func parseWindow(s string) time.Duration {
	if s == "-1" {
		return -1
	}
	d, err := time.ParseDuration(s)
	if err != nil {
		return time.Hour
	}
	return d
}

// ---------------------------------------------------------------------------------------------
// what the harness observes at the transport

type attemptRec struct {
	G       int    `json:"g"` // arrival number over the whole flush
	Batch   int    `json:"batch"`
	Attempt int    `json:"attempt"`
	Outcome string `json:"outcome"`
	BodyLen int    `json:"body_len"`
}

type batchRec struct {
	idx       int
	tag       string // "f<k>" when the payload names gauges f<k>_g<i> (sequence phase: which flush the batch belongs to)
	attempts  int
	failures  int
	delivered bool
}

type transportSpy struct {
	c      *httpCase
	cancel func()

	mu       sync.Mutex
	batches  map[string]*batchRec
	order    []*batchRec
	log      []attemptRec
	g        int
	lastOKG  int    // arrival number of the latest attempt answered with a 2xx
	override string // flusher level: when set, every request gets this outcome

	inflight atomic.Int64
	hanging  atomic.Int64
}

func newSpy(c *httpCase, cancel func()) *transportSpy {
	return &transportSpy{c: c, cancel: cancel, batches: map[string]*batchRec{}}
}

func (t *transportSpy) setOverride(o string) {
	t.mu.Lock()
	t.override = o
	t.mu.Unlock()
}

// begin registers an attempt for the batch identified by key and returns its scripted outcome.
func (t *transportSpy) begin(key string, bodyLen int) (b *batchRec, rec attemptRec) {
	t.mu.Lock()
	defer t.mu.Unlock()
	b = t.batches[key]
	if b == nil {
		b = &batchRec{idx: len(t.order)}
		if i := strings.LastIndex(key, "/"); i >= 0 {
			b.tag = key[i+1:]
		}
		t.batches[key] = b
		t.order = append(t.order, b)
	}
	t.g++
	rec = attemptRec{G: t.g, Batch: b.idx, Attempt: b.attempts, BodyLen: bodyLen}
	rec.Outcome = t.c.outcome(b.idx, b.attempts)
	if t.override != "" {
		rec.Outcome = t.override
	}
	b.attempts++
	return b, rec
}

func (t *transportSpy) end(b *batchRec, rec attemptRec, ok bool) {
	t.mu.Lock()
	if ok {
		b.delivered = true
		if rec.G > t.lastOKG {
			t.lastOKG = rec.G
		}
	} else {
		b.failures++
	}
	if len(t.log) < 64 {
		t.log = append(t.log, rec)
	}
	t.mu.Unlock()
}

type spySummary struct {
	Batches     int
	Attempts    int
	Failures    int
	Undelivered int // observed batches none of whose attempts got a 2xx
	Recovered   int // batches delivered after at least one failed attempt
	Drained     int // attempts that arrived with an empty body although the batch has one
	Log         []attemptRec
}

func (t *transportSpy) summary() spySummary {
	t.mu.Lock()
	defer t.mu.Unlock()
	s := spySummary{Batches: len(t.order), Log: append([]attemptRec(nil), t.log...)}
	for _, b := range t.order {
		s.Attempts += b.attempts
		s.Failures += b.failures
		if !b.delivered {
			s.Undelivered++
		} else if b.failures > 0 {
			s.Recovered++
		}
	}
	return s
}

// tagged reports the batches observed for one flush of a sequence and how many of them never got a 2xx.
func (t *transportSpy) tagged(tag string) (batches, undelivered int) {
	t.mu.Lock()
	defer t.mu.Unlock()
	for _, b := range t.order {
		if b.tag == tag {
			batches++
			if !b.delivered {
				undelivered++
			}
		}
	}
	return
}

func (t *transportSpy) okAfter(g int) bool {
	t.mu.Lock()
	defer t.mu.Unlock()
	return t.lastOKG > g
}

func (t *transportSpy) counter() int {
	t.mu.Lock()
	defer t.mu.Unlock()
	return t.g
}

// canonical identifies the batch a request belongs to. OTLP re-sends one Request whose body is drained
// after the first attempt and New Relic (insights/metrics) gzips its payload once more per attempt, so
// the identity is the content of GetBody (the original payload), gunzipped as often as possible.
var flushTagRe = regexp.MustCompile(`f\d+_g`)

func canonical(req *http.Request) (key string, bodyLen int) {
	var raw []byte
	if req.Body != nil {
		raw, _ = io.ReadAll(req.Body)
		_ = req.Body.Close()
	}
	bodyLen = len(raw)
	orig := raw
	if req.GetBody != nil {
		if rc, err := req.GetBody(); err == nil {
			if b, err := io.ReadAll(rc); err == nil {
				orig = b
			}
			_ = rc.Close()
		}
	}
	for i := 0; i < 16 && len(orig) > 2 && orig[0] == 0x1f && orig[1] == 0x8b; i++ {
		zr, err := gzip.NewReader(bytes.NewReader(orig))
		if err != nil {
			break
		}
		d, err := io.ReadAll(zr)
		if err != nil {
			break
		}
		orig = d
	}
	sum := sha1.Sum(orig)
	key = fmt.Sprintf("%x", sum[:10])
	if m := flushTagRe.Find(orig); m != nil {
		key += "/" + string(m[:len(m)-2])
	}
	return key, bodyLen
}

func mkResp(req *http.Request, status int, body string, hdr map[string]string) *http.Response {
	h := http.Header{}
	h.Set("Content-Type", "application/x-protobuf")
	for k, v := range hdr {
		h.Set(k, v)
	}
	return &http.Response{StatusCode: status, Status: fmt.Sprintf("%d scripted", status), Proto: "HTTP/1.1", ProtoMajor: 1, ProtoMinor: 1,
		Header: h, Body: io.NopCloser(strings.NewReader(body)), ContentLength: int64(len(body)), Request: req}
}

// RoundTrip serves the scripted outcome. Like a real transport it answers a request whose context is
// already done with the context's error.
func (t *transportSpy) RoundTrip(req *http.Request) (*http.Response, error) {
	t.inflight.Add(1)
	defer t.inflight.Add(-1)
	key, blen := canonical(req)
	b, rec := t.begin(key, blen)
	if t.c.Cancel == "attempt" && rec.G == t.c.N {
		t.cancel()
	}
	if err := req.Context().Err(); err != nil {
		rec.Outcome += "+ctx"
		t.end(b, rec, false)
		return nil, err
	}
	switch rec.Outcome {
	case "ok":
		t.end(b, rec, true)
		return mkResp(req, 200, "", nil), nil // an empty body is an empty ExportMetricsServiceResponse
	case "500", "503":
		t.end(b, rec, false)
		return mkResp(req, 500, "scripted failure", nil), nil
	case "429":
		t.end(b, rec, false)
		return mkResp(req, 429, "slow down", map[string]string{"Retry-After": "1"}), nil
	case "hang":
		t.hanging.Add(1)
		<-req.Context().Done()
		t.hanging.Add(-1)
		rec.Outcome = "hang+ctx"
		t.end(b, rec, false)
		return nil, req.Context().Err()
	default: // "err"
		t.end(b, rec, false)
		return nil, errors.New("scripted: connection reset by peer")
	}
}

// PutMetricData makes the spy a CloudWatch API: call k is batch k, there are no retries.
func (t *transportSpy) PutMetricData(ctx context.Context, in *awscw.PutMetricDataInput, _ ...func(*awscw.Options)) (*awscw.PutMetricDataOutput, error) {
	t.inflight.Add(1)
	defer t.inflight.Add(-1)
	key := fmt.Sprintf("call-%d", t.counter())
	if len(in.MetricData) > 0 && in.MetricData[0].MetricName != nil {
		if m := flushTagRe.FindString(*in.MetricData[0].MetricName); m != "" {
			key += "/" + m[:len(m)-2]
		}
	}
	b, rec := t.begin(key, len(in.MetricData))
	if t.c.Cancel == "attempt" && rec.G == t.c.N {
		t.cancel()
	}
	if err := ctx.Err(); err != nil {
		rec.Outcome += "+ctx"
		t.end(b, rec, false)
		return nil, err
	}
	switch rec.Outcome {
	case "ok":
		t.end(b, rec, true)
		return &awscw.PutMetricDataOutput{}, nil
	case "hang":
		t.hanging.Add(1)
		<-ctx.Done()
		t.hanging.Add(-1)
		rec.Outcome = "hang+ctx"
		t.end(b, rec, false)
		return nil, ctx.Err()
	default:
		t.end(b, rec, false)
		return nil, errors.New("scripted: InternalServiceFault " + rec.Outcome)
	}
}

// ---------------------------------------------------------------------------------------------
// backends, each built by its viper factory around the harness transport

func buildBackend(c *httpCase, logger logrus.FieldLogger, cancel func()) (gostatsd.Backend, *transportSpy, error) {
	spy := newSpy(c, cancel)
	pool := transport.NewTransportPool(logger, viper.New())
	cl, err := pool.Get("default")
	if err != nil {
		return nil, nil, err
	}
	cl.Client.Transport = spy
	cl.Client.Timeout = 0 // client-timeout 0 (legal): the only clocks left are the mock back-off clock and the context
	if c.Backend == "cloudwatch" {
		return cloudwatch.VerifNewClient(spy, "StatsD", gostatsd.TimerSubtypes{}, logger), spy, nil
	}
	be, err := backendOnPool(c, logger, pool, "http://"+family(c.Backend)+".invalid")
	return be, spy, err
}

// backendOnPool builds the backend with its viper factory on the given transport pool, pointed at base.
func backendOnPool(c *httpCase, logger logrus.FieldLogger, pool *transport.TransportPool, base string) (gostatsd.Backend, error) {
	var err error
	window := parseWindow(c.Window)
	v := viper.New()
	v.Set("flush-interval", "1s")
	var be gostatsd.Backend
	switch c.Backend {
	case "datadog":
		v.Set("datadog.api_endpoint", base)
		v.Set("datadog.api_key", "k3y")
		v.Set("datadog.metrics_per_batch", c.PerBatch)
		v.Set("datadog.max_requests", c.MaxReq)
		v.Set("datadog.max_request_elapsed_time", window)
		v.Set("datadog.compress_payload", c.Compress)
		be, err = datadog.NewClientFromViper(v, logger, pool)
	case "influxdb-v1", "influxdb-v2":
		v.Set("influxdb.api-endpoint", base)
		if c.Backend == "influxdb-v1" {
			v.Set("influxdb.api-version", 1)
			v.Set("influxdb.database", "db")
		} else {
			v.Set("influxdb.api-version", 2)
			v.Set("influxdb.bucket", "b")
			v.Set("influxdb.org", "o")
		}
		v.Set("influxdb.metrics-per-batch", c.PerBatch)
		v.Set("influxdb.max-requests", c.MaxReq)
		v.Set("influxdb.max-request-elapsed-time", window)
		v.Set("influxdb.compress-payload", c.Compress)
		be, err = influxdb.NewClientFromViper(v, logger, pool)
	case "newrelic-infra", "newrelic-insights", "newrelic-metrics":
		ft := strings.TrimPrefix(c.Backend, "newrelic-")
		v.Set("flush-interval", "10s")
		v.Set("newrelic.flush-type", ft)
		v.Set("newrelic.address", base+"/v1/data")
		if ft != "infra" {
			v.Set("newrelic.api-key", "k3y")
			v.Set("newrelic.address", base+"/v1/accounts/1/events")
			v.Set("newrelic.address-metrics", base+"/metric/v1")
		}
		v.Set("newrelic.metrics-per-batch", c.PerBatch)
		v.Set("newrelic.max-requests", c.MaxReq)
		v.Set("newrelic.max-request-elapsed-time", window)
		be, err = newrelic.NewClientFromViper(v, logger, pool)
	case "otlp":
		v.Set("otlp.metrics_endpoint", base+"/v1/metrics")
		v.Set("otlp.logs_endpoint", base+"/v1/logs")
		v.Set("otlp.metrics_per_batch", c.PerBatch)
		v.Set("otlp.max_requests", c.MaxReq)
		v.Set("otlp.max_retries", c.Retries)
		v.Set("otlp.max_request_elapsed_time", window)
		v.Set("otlp.compress_payload", c.Compress)
		be, err = otlp.NewClientFromViper(v, logger, pool)
	case "stdout":
		be, err = stdout.NewClientFromViper(v, logger, pool)
	case "null":
		be, err = null.NewClientFromViper(v, logger, pool)
	default:
		err = fmt.Errorf("unknown backend %q", c.Backend)
	}
	return be, err
}

// ---------------------------------------------------------------------------------------------
// mock clock driver: fires the next back-off timer whenever one is pending; performs the scripted
// cancellation "during the n-th back-off" and the late cancellation that releases hung requests

type clockDriver struct {
	stopCh chan struct{}
	done   chan struct{}
}

func (d *clockDriver) stop() {
	close(d.stopCh)
	<-d.done
}

func startDriver(mock *clock.Mock, spy *transportSpy, c *httpCase, cancel func()) *clockDriver {
	d := &clockDriver{stopCh: make(chan struct{}), done: make(chan struct{})}
	go func() {
		defer close(d.done)
		seen, onlyHung := 0, 0
		for {
			select {
			case <-d.stopCh:
				return
			default:
			}
			switch {
			case mock.Len() > 0:
				seen++
				onlyHung = 0
				if c.Cancel == "timer" && seen == c.N {
					cancel()
				} else {
					mock.AddNext()
				}
			case spy.hanging.Load() > 0 && spy.inflight.Load() == spy.hanging.Load():
				// nothing but hung requests: nothing can progress without a cancellation
				onlyHung++
				if onlyHung == 400 {
					cancel()
				}
			default:
				onlyHung = 0
			}
			runtime.Gosched()
			time.Sleep(20 * time.Microsecond)
		}
	}()
	return d
}

// ---------------------------------------------------------------------------------------------
// one flush request

type httpResult struct {
	setupFailed bool
	never       bool // no callback within the watchdog
	panicked    bool
	cancelled   bool // a scripted / late cancellation had happened when the callback was observed
	finalCalls  int
	errs        []error
	sum         spySummary
	unsettled   bool
}

func runHTTPOnce(r *mon.Run, c httpCase, payload replayCase, watch time.Duration) (res httpResult) {
	base := runtime.NumGoroutine()
	logger := quietLogger()
	mock := clock.NewMock(time.Unix(1700000000, 0))
	ctx, cancel := context.WithCancel(clock.Context(context.Background(), mock))
	defer cancel()
	var cancelled atomic.Bool
	cancelFn := func() {
		cancelled.Store(true)
		cancel()
	}
	be, spy, err := buildBackend(&c, logger, cancelFn)
	if err != nil {
		r.Inconclusive("http:setup:" + c.Backend)
		res.setupFailed = true
		return res
	}
	p := &probe{}
	mm := gaugeMap("m", c.Series, "")
	if c.Cancel == "before" {
		cancelFn()
	}
	drv := startDriver(mock, spy, &c, cancelFn)
	returned := make(chan struct{})
	var panicked atomic.Bool
	go func() {
		defer close(returned)
		if r.Guard(family(c.Backend)+":panic", payload, func() { be.SendMetricsAsync(ctx, mm, p.cb) }) {
			panicked.Store(true)
		}
	}()
	isReturned := func() bool {
		select {
		case <-returned:
			return true
		default:
			return false
		}
	}
	mon.WaitUntil(watch, func() bool { return p.calls.Load() >= 1 || (isReturned() && panicked.Load()) })
	res.panicked = panicked.Load()
	res.never = p.calls.Load() == 0 && !res.panicked
	res.cancelled = cancelled.Load()

	// grace period, bounded by logical quiescence: the call has returned, no request in flight, no pending
	// back-off timer, the goroutines of this flush are gone; then cancel the context and look again
	quiet := func() bool { return isReturned() && spy.inflight.Load() == 0 && mock.Len() == 0 }
	// a family whose flush goroutines have repeatedly not ended (they leak) is no longer waited for: the
	// goroutine criterion only bounds the grace period, it is not a verdict
	fam := family(c.Backend)
	leaky := unsettledCount(fam) >= 4
	goroutinesGone := func() bool { return leaky || runtime.NumGoroutine() <= base+1 }
	if !res.never {
		if !mon.WaitUntil(settleWatch, func() bool { return quiet() && goroutinesGone() }) {
			res.unsettled = true
		}
	}
	cancel()
	if !mon.WaitUntil(settleWatch, func() bool { return spy.inflight.Load() == 0 && goroutinesGone() }) {
		res.unsettled = true
		unsettledSeen(fam)
		if os.Getenv("C16_DEBUG") != "" {
			buf := make([]byte, 1<<20)
			fmt.Fprintf(os.Stderr, "UNSETTLED %s base=%d now=%d\n%s\n", js(c), base, runtime.NumGoroutine(), buf[:runtime.Stack(buf, true)])
		}
	}
	drv.stop()
	res.finalCalls = int(p.calls.Load())
	res.errs = p.first()
	res.sum = spy.summary()
	return res
}

var unsettled sync.Map // family -> *atomic.Int64

func unsettledCount(fam string) int64 {
	if v, ok := unsettled.Load(fam); ok {
		return v.(*atomic.Int64).Load()
	}
	return 0
}

func unsettledSeen(fam string) {
	v, _ := unsettled.LoadOrStore(fam, new(atomic.Int64))
	v.(*atomic.Int64).Add(1)
}

func batchClass(n int) string {
	switch {
	case n == 0:
		return "0"
	case n == 1:
		return "1"
	}
	return "many"
}

// neverSeen remembers the families and (family, class) pairs for which a missing callback has been confirmed
// (20 s watchdog, twice). Further cases of that pair are skipped; other classes of that family run with a
// shorter watchdog and without the confirmation run.
var neverSeen sync.Map

func runHTTPCase(r *mon.Run, c httpCase) {
	payload := replayCase{HTTP: &c}
	fam := family(c.Backend)
	if _, dup := neverSeen.Load(fam + "|" + c.Class); dup {
		r.Event("skipped_after_callback_never", 1)
		return
	}
	reps := c.Reps
	if reps < 1 {
		reps = 1
	}
	for rep := 0; rep < reps; rep++ {
		r.Case("http %s rep=%d", js(c), rep)
		watch := callbackWatch
		_, famSeen := neverSeen.Load(fam)
		if famSeen {
			watch = settleWatch
		}
		res := runHTTPOnce(r, c, payload, watch)
		if res.setupFailed {
			return
		}
		describe := func(res httpResult) string {
			return fmt.Sprintf("%s case %s: callback invoked %d time(s), errors %v; observed %d batch(es), %d attempt(s), %d without any 2xx; attempts %s",
				c.Backend, js(c), res.finalCalls, errStrings(res.errs), res.sum.Batches, res.sum.Attempts, res.sum.Undelivered, js(res.sum.Log))
		}
		if res.never {
			// deterministic script: confirm once more before calling it a violation
			again := res
			if !famSeen {
				again = runHTTPOnce(r, c, payload, watch)
			}
			if again.never {
				r.Violation(fmt.Sprintf("%s:callback-never:%s", fam, c.Class), fmt.Sprintf("no callback within %v (confirmed by a second run: %v). ", watch, !famSeen)+describe(again), payload)
				neverSeen.Store(fam+"|"+c.Class, true)
				neverSeen.Store(fam, true)
				r.Eval(1)
				return
			} else {
				r.Inconclusive("http:callback-late:" + c.Backend)
			}
			res = again
		}
		if !res.panicked && !res.never {
			if res.finalCalls > 1 {
				r.Violation(fam+":callback-twice", describe(res), payload)
			}
			if res.sum.Undelivered > 0 && !hasErr(res.errs) {
				r.Violation(fam+":no-error-on-undelivered", describe(res), payload)
			}
			if res.sum.Undelivered == 0 && !res.cancelled && c.Cancel == "" && hasErr(res.errs) {
				r.Violation(fam+":error-on-delivered", describe(res), payload)
			}
		}
		r.Eval(1)
		r.Event("scripts:"+c.Backend, 1)
		r.Event("callbacks", res.finalCalls)
		r.Event("attempts", res.sum.Attempts)
		r.Event("batches", res.sum.Batches)
		if res.unsettled {
			r.Event("goroutines_unsettled", 1)
		}
		for _, a := range res.sum.Log {
			if a.Attempt > 0 && a.BodyLen == 0 && c.Backend == "otlp" {
				r.Event("otlp_retry_with_drained_body", 1)
				break
			}
		}
		if res.sum.Failures > 0 && res.finalCalls >= 1 {
			r.Nontrivial(fmt.Sprintf("%s|%v|%s%d|b%s", c.Backend, c.Scripts, c.Cancel, c.N, batchClass(res.sum.Batches)))
			if r.WantSample() && c.ID%11 == 5 {
				r.Sample(map[string]interface{}{"case": c, "callbacks": res.finalCalls, "callback_errors": errStrings(res.errs), "attempts": res.sum.Log, "undelivered_batches": res.sum.Undelivered})
			}
		}
		if r.Violations() > 30 {
			return
		}
	}
}

// ---------------------------------------------------------------------------------------------
// enumeration

var failOutcomes = []string{"500", "429", "err"}

func failPrefixes(maxLen int) [][]string {
	out := [][]string{{}}
	var rec func(p []string)
	rec = func(p []string) {
		if len(p) == maxLen {
			return
		}
		for _, f := range failOutcomes {
			s := append(append([]string(nil), p...), f)
			out = append(out, s)
			rec(s)
		}
	}
	rec(nil)
	return out
}

type scriptSpec struct {
	s       []string
	class   string
	window  string
	retries int
	cancel  string
	n       int
}

// httpScripts enumerates the per-batch outcome scripts: every failure prefix of length <= sp followed by
// success; every failure sequence of length 1..ep repeated until the retry window expires (otlp also:
// until max-retries); retries disabled; every prefix of length <= cp followed by success or a hang, with
// every cancellation point.
func httpScripts(thorough bool, backend string) []scriptSpec {
	sp, ep, cp := 2, 2, 1
	if thorough {
		sp, ep, cp = 2, 3, 2
	}
	var out []scriptSpec
	with := func(p []string, tail ...string) []string { return append(append([]string(nil), p...), tail...) }
	otlpRetries := func(n int) int {
		if backend == "otlp" {
			return n
		}
		return 0
	}
	for _, p := range failPrefixes(sp) {
		out = append(out, scriptSpec{s: with(p, "ok"), class: "success", window: "1h", retries: otlpRetries(5)})
	}
	for _, p := range failPrefixes(ep) {
		if len(p) == 0 {
			continue
		}
		out = append(out, scriptSpec{s: p, class: "expiry", window: "1s", retries: otlpRetries(20)})
		if backend == "otlp" && len(p) <= 2 {
			out = append(out, scriptSpec{s: p, class: "maxretries", window: "0s", retries: 3 - len(p)})
		}
	}
	for _, f := range failOutcomes {
		if backend == "otlp" {
			out = append(out, scriptSpec{s: []string{f}, class: "noretry", window: "1h", retries: 0})
		} else {
			out = append(out, scriptSpec{s: []string{f}, class: "noretry", window: "-1"})
		}
	}
	for _, p := range failPrefixes(cp) {
		for _, tail := range []string{"ok", "hang"} {
			s := with(p, tail)
			out = append(out, scriptSpec{s: s, class: "cancel-before", window: "1h", retries: otlpRetries(5), cancel: "before"})
			for n := 1; n <= len(s); n++ {
				out = append(out, scriptSpec{s: s, class: "cancel-attempt", window: "1h", retries: otlpRetries(5), cancel: "attempt", n: n})
			}
			for n := 1; n <= len(p); n++ {
				out = append(out, scriptSpec{s: s, class: "cancel-timer", window: "1h", retries: otlpRetries(5), cancel: "timer", n: n})
			}
			if tail == "hang" {
				out = append(out, scriptSpec{s: s, class: "cancel-late", window: "1h", retries: otlpRetries(5), cancel: "late"})
			}
		}
	}
	return out
}

func httpCases(r *mon.Run) []httpCase {
	var cases []httpCase
	add := func(c httpCase) {
		c.ID = len(cases)
		c.Compress = c.ID%2 == 0
		cases = append(cases, c)
	}
	type layout struct {
		series, perBatch, maxReq int
		middle                   bool // only the second batch follows the script
	}
	layouts := []layout{{1, 10, 2, false}, {3, 1, 1, false}, {3, 1, 4, true}}
	if r.Thorough() {
		layouts = append(layouts, layout{3, 1, 1, true}, layout{3, 1, 4, false})
	}
	for _, be := range []string{"datadog", "influxdb-v1", "influxdb-v2", "newrelic-infra", "newrelic-insights", "newrelic-metrics", "otlp"} {
		for _, sp := range httpScripts(r.Thorough(), be) {
			for _, l := range layouts {
				scripts := [][]string{sp.s}
				if l.middle {
					scripts = [][]string{{"ok"}, sp.s, {"ok"}}
				}
				add(httpCase{Backend: be, Series: l.series, PerBatch: l.perBatch, MaxReq: l.maxReq, Window: sp.window, Retries: sp.retries, Scripts: scripts, Cancel: sp.cancel, N: sp.n, Class: sp.class})
			}
		}
		// an empty flush (otlp still posts one empty batch)
		add(httpCase{Backend: be, Series: 0, PerBatch: 10, MaxReq: 2, Window: "1h", Retries: 3, Scripts: [][]string{{"ok"}}, Class: "success"})
		add(httpCase{Backend: be, Series: 0, PerBatch: 10, MaxReq: 2, Window: "1s", Retries: 20, Scripts: [][]string{{"500"}}, Class: "expiry"})
		add(httpCase{Backend: be, Series: 0, PerBatch: 10, MaxReq: 2, Window: "1h", Retries: 3, Scripts: [][]string{{"ok"}}, Cancel: "before", Class: "cancel-before"})
	}
	// D10: influxdb called with an already cancelled context takes a random branch of a select
	for _, be := range []string{"influxdb-v1", "influxdb-v2"} {
		for _, series := range []int{0, 1, 3} {
			add(httpCase{Backend: be, Series: series, PerBatch: 1, MaxReq: 2, Window: "1h", Scripts: [][]string{{"ok"}}, Cancel: "before", Reps: 14, Class: "cancel-before"})
		}
	}
	// cloudwatch: one API call per 20 data, no retries; outcome of call k = Scripts[k][0]
	one := func(o string) []string { return []string{o} }
	cwOutcomes := []string{"ok", "err"}
	for _, a := range cwOutcomes {
		cls := map[bool]string{true: "success", false: "api-error"}
		add(httpCase{Backend: "cloudwatch", Series: 5, Scripts: [][]string{one(a)}, Class: cls[a == "ok"]})
		for _, b := range cwOutcomes {
			for _, c := range cwOutcomes {
				add(httpCase{Backend: "cloudwatch", Series: 45, Scripts: [][]string{one(a), one(b), one(c)}, Class: cls[a == "ok" && b == "ok" && c == "ok"]})
			}
		}
	}
	add(httpCase{Backend: "cloudwatch", Series: 0, Scripts: [][]string{one("err")}, Class: "success"})
	add(httpCase{Backend: "cloudwatch", Series: 0, Scripts: [][]string{one("ok")}, Cancel: "before", Class: "cancel-before"})
	for _, sc := range [][][]string{{one("ok"), one("ok"), one("ok")}, {one("ok"), one("hang"), one("ok")}, {one("err"), one("ok"), one("hang")}, {one("hang")}} {
		add(httpCase{Backend: "cloudwatch", Series: 45, Scripts: sc, Cancel: "before", Class: "cancel-before"})
		for n := 1; n <= 3; n++ {
			add(httpCase{Backend: "cloudwatch", Series: 45, Scripts: sc, Cancel: "attempt", N: n, Class: "cancel-attempt"})
		}
		add(httpCase{Backend: "cloudwatch", Series: 45, Scripts: sc, Cancel: "late", Class: "cancel-late"})
	}
	// stdout and null: no transport at all
	for _, be := range []string{"stdout", "null"} {
		for _, series := range []int{0, 1, 3} {
			add(httpCase{Backend: be, Series: series, Class: "trivial"})
			add(httpCase{Backend: be, Series: series, Cancel: "before", Class: "trivial"})
		}
	}
	return cases
}

func runHTTPPhase(r *mon.Run) {
	cases := httpCases(r)
	n := 0
	for i, c := range cases {
		if !r.Mine(i) {
			continue
		}
		n++
		runHTTPCase(r, c)
		if r.Violations() > 30 {
			break
		}
	}
	r.Extra("http_cases_total", n)
	r.Extra("exhaustive_http_failure_sequences_upto", map[bool]string{false: "2", true: "3"}[r.Thorough()])
}
