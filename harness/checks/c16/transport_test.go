//go:build verif

package c16

import (
	"context"
	"fmt"
	"io"
	"math/rand"
	"net/http"
	"net/http/httptest"
	"sort"
	"strings"
	"sync/atomic"
	"time"

	"github.com/spf13/viper"
	"github.com/tilinna/clock"

	"github.com/atlassian/gostatsd/pkg/transport"

	"verif/mon"
)

// The client timeout (http.Client.Timeout, `client-timeout`) is the only thing that ends an attempt
// against a server which accepts the request and then stays silent: the retry window is consulted
// between attempts only. The fault scripts of http_test.go run with client-timeout 0 and a harness
// RoundTripper, so the wiring of that setting is checked here:
//
//	(a) configuration phase: pools built from generated configurations (TOML, YAML, nested map, dotted
//	    keys); http.Client.Timeout of every looked-up transport must be what TRANSPORT.md says;
//	(b) behaviour: a real loopback server that reads the request and never answers, a backend on a pool
//	    whose [transport.default] table sets a short client-timeout next to other keys: the callback
//	    must come exactly once, with an error.
//
// Fallback rule asserted (TRANSPORT.md: "client-timeout = '10s'" is the default of every
// [transport.<name>]; "If a transport is not configured, it will fallback to the transport named
// default"):
//
//	timeout(name) = own client-timeout            if [transport.<name>] exists and sets it
//	              = 10s                           if [transport.<name>] exists without it (not inherited from default)
//	              = timeout("default")            if [transport.<name>] does not exist
//	timeout("default") = 10s when there is no [transport.default] or it does not set client-timeout.
//
// An empty [transport.<name>] table is only generated when both readings (configured with defaults /
// not configured) give the same answer, because the document does not say which applies.

const documentedClientTimeout = 10 * time.Second

// ---------------------------------------------------------------------------------------------
// (a) configuration phase

type spelling struct {
	Text string      `json:"text"` // as written in TOML / YAML
	Val  interface{} `json:"-"`    // as a Go value in map / dotted form
	Want time.Duration
}

var timeoutSpellings = []spelling{
	{"'10s'", "10s", 10 * time.Second},
	{"'150ms'", "150ms", 150 * time.Millisecond},
	{"'1m30s'", "1m30s", 90 * time.Second},
	{"'2h'", "2h", 2 * time.Hour},
	{"'1.5s'", "1.5s", 1500 * time.Millisecond},
	{"'45s'", "45s", 45 * time.Second},
	{"'3s'", "3s", 3 * time.Second},
	{"250000000", 250000000, 250 * time.Millisecond}, // a bare integer is nanoseconds
	{"0", 0, 0},       // documented: 0 disables the timeout
	{"'0'", "0", 0},   //
	{"'0s'", "0s", 0}, //
}

type otherKey struct {
	Key  string
	Text string
	Val  interface{}
}

var unrelatedKeys = []otherKey{
	{"dialer-timeout", "'2s'", "2s"},
	{"max-idle-connections", "7", 7},
	{"idle-connection-timeout", "'30s'", "30s"},
	{"dialer-keep-alive", "'15s'", "15s"},
	{"enable-http2", "false", false},
	{"network", "'tcp4'", "tcp4"},
	{"tls-handshake-timeout", "'4s'", "4s"},
	{"response-header-timeout", "'1s'", "1s"},
	{"type", "'http'", "http"},
}

type tpTable struct {
	Name    string `json:"name"`
	Timeout int    `json:"timeout"` // index into timeoutSpellings, -1 = not set
	Others  []int  `json:"others"`  // indexes into unrelatedKeys
}

type transportCase struct {
	ID      int       `json:"id"`
	Shape   string    `json:"shape"`
	Format  string    `json:"format"` // toml | yaml | map | dotted
	Tables  []tpTable `json:"tables"` // empty = no transport section at all
	Lookups []string  `json:"lookups"`
	Text    string    `json:"text,omitempty"`
}

func (c *transportCase) render() string {
	var sb strings.Builder
	switch c.Format {
	case "toml":
		sb.WriteString("flush-interval = '1s'\nbackends = ['datadog']\n")
		for _, t := range c.Tables {
			fmt.Fprintf(&sb, "[transport.%s]\n", t.Name)
			if t.Timeout >= 0 {
				fmt.Fprintf(&sb, "client-timeout = %s\n", timeoutSpellings[t.Timeout].Text)
			}
			for _, o := range t.Others {
				fmt.Fprintf(&sb, "%s = %s\n", unrelatedKeys[o].Key, unrelatedKeys[o].Text)
			}
		}
		sb.WriteString("[datadog]\napi_key = 'k'\n")
	case "yaml":
		sb.WriteString("flush-interval: '1s'\n")
		if len(c.Tables) > 0 {
			sb.WriteString("transport:\n")
		}
		for _, t := range c.Tables {
			if t.Timeout < 0 && len(t.Others) == 0 {
				fmt.Fprintf(&sb, "  %s: {}\n", t.Name)
				continue
			}
			fmt.Fprintf(&sb, "  %s:\n", t.Name)
			if t.Timeout >= 0 {
				fmt.Fprintf(&sb, "    client-timeout: %s\n", timeoutSpellings[t.Timeout].Text)
			}
			for _, o := range t.Others {
				fmt.Fprintf(&sb, "    %s: %s\n", unrelatedKeys[o].Key, unrelatedKeys[o].Text)
			}
		}
		sb.WriteString("datadog:\n  api_key: k\n")
	}
	return sb.String()
}

func (c *transportCase) viper() (*viper.Viper, error) {
	v := viper.New()
	switch c.Format {
	case "toml", "yaml":
		v.SetConfigType(c.Format)
		if err := v.ReadConfig(strings.NewReader(c.Text)); err != nil {
			return nil, err
		}
	case "map":
		tr := map[string]interface{}{}
		for _, t := range c.Tables {
			m := map[string]interface{}{}
			if t.Timeout >= 0 {
				m["client-timeout"] = timeoutSpellings[t.Timeout].Val
			}
			for _, o := range t.Others {
				m[unrelatedKeys[o].Key] = unrelatedKeys[o].Val
			}
			tr[t.Name] = m
		}
		cfg := map[string]interface{}{"flush-interval": "1s"}
		if len(c.Tables) > 0 {
			cfg["transport"] = tr
		}
		if err := v.MergeConfigMap(cfg); err != nil {
			return nil, err
		}
	case "dotted":
		v.Set("flush-interval", "1s")
		for _, t := range c.Tables {
			if t.Timeout >= 0 {
				v.Set("transport."+t.Name+".client-timeout", timeoutSpellings[t.Timeout].Val)
			}
			for _, o := range t.Others {
				v.Set("transport."+t.Name+"."+unrelatedKeys[o].Key, unrelatedKeys[o].Val)
			}
		}
	}
	return v, nil
}

// want is the reference statement of the fallback rule (see the top of the file).
func (c *transportCase) want(name string) time.Duration {
	find := func(n string) *tpTable {
		for i := range c.Tables {
			if c.Tables[i].Name == n {
				return &c.Tables[i]
			}
		}
		return nil
	}
	t := find(name)
	if t == nil {
		t = find("default")
	}
	if t == nil || t.Timeout < 0 {
		return documentedClientTimeout
	}
	return timeoutSpellings[t.Timeout].Want
}

func runTransportCase(r *mon.Run, c transportCase) {
	payload := replayCase{Transport: &c}
	c.Text = c.render()
	v, err := c.viper()
	if err != nil {
		r.Inconclusive("transport:config-unreadable:" + c.Format)
		return
	}
	pool := transport.NewTransportPool(quietLogger(), v)
	for _, name := range c.Lookups {
		want := c.want(name)
		var got time.Duration
		var gerr error
		if r.Guard("transport:panic", payload, func() {
			var cl *transport.Client
			cl, gerr = pool.Get(name)
			if gerr == nil {
				got = cl.Client.Timeout
			}
		}) {
			return
		}
		what := fmt.Sprintf("format %s, configuration %q %s: pool.Get(%q)", c.Format, c.Text, js(c.Tables), name)
		switch {
		case gerr != nil:
			r.Violation("transport:get-error:"+c.Shape, fmt.Sprintf("%s failed: %v (a valid configuration; expected http.Client.Timeout %v)", what, gerr, want), payload)
		case got != want:
			r.Violation("transport:client-timeout:"+c.Shape, fmt.Sprintf("%s has http.Client.Timeout=%v, TRANSPORT.md says %v (0 = an attempt against a silent server never ends)", what, got, want), payload)
		}
		r.Event("transport_lookups", 1)
	}
	r.Eval(1)
	r.Event("scripts:transport-config", 1)
	if len(c.Tables) > 0 {
		key := c.Shape + "|" + c.Format
		for _, t := range c.Tables {
			key += fmt.Sprintf("|%s:%d:%d", t.Name, t.Timeout, len(t.Others))
		}
		r.Nontrivial("transport|" + key)
	}
}

func transportCases(r *mon.Run) []transportCase {
	rng := r.RandGlobal("transport-configs")
	var cases []transportCase
	others := func(min, max int) []int {
		n := min + rng.Intn(max-min+1)
		perm := rng.Perm(len(unrelatedKeys))[:n]
		sort.Ints(perm)
		return perm
	}
	sp := func() int { return rng.Intn(len(timeoutSpellings)) }
	add := func(shape string, tables []tpTable, lookups ...string) {
		for _, f := range []string{"toml", "yaml", "map", "dotted"} {
			if f == "dotted" { // dotted keys cannot express an empty table
				skip := false
				for _, t := range tables {
					if t.Timeout < 0 && len(t.Others) == 0 {
						skip = true
					}
				}
				if skip {
					continue
				}
			}
			cases = append(cases, transportCase{ID: len(cases), Shape: shape, Format: f, Tables: tables, Lookups: lookups})
		}
	}
	rounds := r.Pick(40, 300)
	add("no-section", nil, "default", "nope", "default")
	for i := 0; i < len(unrelatedKeys); i++ { // the default table with exactly one unrelated key, each key once
		add("default-unrelated-only", []tpTable{{"default", -1, []int{i}}}, "default", "other")
	}
	for s := range timeoutSpellings { // every spelling, alone and next to other keys
		add("default-explicit", []tpTable{{"default", s, nil}}, "default", "unknown")
		add("default-explicit-with-others", []tpTable{{"default", s, others(1, 4)}}, "unknown", "default")
		add("named-own", []tpTable{{"fast", s, others(0, 3)}}, "fast", "default", "other")
	}
	for i := 0; i < rounds; i++ {
		add("default-unrelated-only", []tpTable{{"default", -1, others(1, 5)}}, "default", "other")
		add("named-own+default-unrelated", []tpTable{{"default", -1, others(1, 3)}, {"fast", sp(), others(0, 3)}}, "fast", "default", "nope")
		add("named-own+default-explicit", []tpTable{{"default", sp(), others(0, 3)}, {"fast", sp(), others(0, 2)}, {"slow", sp(), nil}}, "slow", "fast", "default", "nope")
		add("named-without+default-explicit", []tpTable{{"default", sp(), others(0, 2)}, {"plain", -1, others(1, 4)}}, "plain", "default", "nope")
		add("named-without+no-default", []tpTable{{"plain", -1, others(1, 4)}}, "plain", "default")
		add("named-empty+default-unrelated", []tpTable{{"default", -1, others(1, 2)}, {"blank", -1, nil}}, "blank", "default")
		add("default-empty", []tpTable{{"default", -1, nil}}, "default", "nope")
	}
	return cases
}

func runTransportPhase(r *mon.Run) {
	cases := transportCases(r)
	n := 0
	for i, c := range cases {
		if !r.Mine(i) {
			continue
		}
		if n%50 == 0 {
			r.Case("transport-config %s", js(c))
		}
		n++
		runTransportCase(r, c)
	}
	r.Extra("transport_config_cases_total", n)

	hung := hungCases()
	for i, c := range hung {
		if r.Mine(i + 5) {
			runHungCase(r, c)
		}
	}
}

// ---------------------------------------------------------------------------------------------
// (b) a server that accepts the request and stays silent

type hungCase struct {
	ID        int    `json:"id"`
	Backend   string `json:"backend"`
	Format    string `json:"format"`
	TimeoutMS int    `json:"client_timeout_ms"`
	Series    int    `json:"series"`
	MaxReq    int    `json:"max_requests"`
	Window    string `json:"window"`
	Retries   int    `json:"max_retries,omitempty"`
}

func hungCases() []hungCase {
	var out []hungCase
	for _, be := range []string{"datadog", "influxdb-v2", "influxdb-v1", "newrelic-infra", "otlp"} {
		for k, f := range []string{"toml", "yaml", "map"} {
			c := hungCase{ID: len(out), Backend: be, Format: f, TimeoutMS: 150, Series: 1, MaxReq: 2, Window: "-1"}
			switch k {
			case 1: // one retry on the (virtual) back-off clock, then the window has expired
				c.Window, c.Retries = "300ms", 5
			case 2: // three batches one after the other, each meeting the silent server
				c.Series, c.MaxReq, c.TimeoutMS = 3, 1, 100
			}
			if be == "otlp" && c.Window == "-1" { // otlp has no "-1": retries are disabled with max_retries 0
				c.Window, c.Retries = "1h", 0
			}
			out = append(out, c)
		}
	}
	return out
}

type hungResult struct {
	setup      string // non-empty: inconclusive reason
	timeoutGot time.Duration
	never      bool
	calls      int
	errs       []error
	requests   int
}

func runHungOnce(r *mon.Run, c hungCase, payload replayCase) (res hungResult) {
	var requests, inHandler atomic.Int64
	release := make(chan struct{})
	srv := httptest.NewServer(http.HandlerFunc(func(w http.ResponseWriter, req *http.Request) {
		inHandler.Add(1)
		defer inHandler.Add(-1)
		_, _ = io.Copy(io.Discard, req.Body)
		requests.Add(1)
		select { // never answers
		case <-release:
		case <-req.Context().Done():
		}
	}))
	released := false
	finish := func() {
		if !released {
			released = true
			close(release)
			srv.Close() // waits for the outstanding handlers
		}
	}
	defer finish()

	// [transport.default] sets the short client timeout together with other keys of the same table
	tc := transportCase{Format: c.Format, Tables: []tpTable{{Name: "default", Timeout: -1, Others: []int{0, 1, 2}}}}
	timeoutSpellingsLocal := fmt.Sprintf("%dms", c.TimeoutMS)
	var v *viper.Viper
	var err error
	switch c.Format {
	case "toml":
		tc.Text = fmt.Sprintf("[transport.default]\ndialer-timeout = '2s'\nclient-timeout = '%s'\nmax-idle-connections = 7\nidle-connection-timeout = '30s'\n", timeoutSpellingsLocal)
		v, err = tc.viper()
	case "yaml":
		tc.Text = fmt.Sprintf("transport:\n  default:\n    dialer-timeout: '2s'\n    client-timeout: '%s'\n    max-idle-connections: 7\n", timeoutSpellingsLocal)
		v, err = tc.viper()
	default:
		v = viper.New()
		err = v.MergeConfigMap(map[string]interface{}{"transport": map[string]interface{}{"default": map[string]interface{}{
			"dialer-timeout": "2s", "client-timeout": timeoutSpellingsLocal, "max-idle-connections": 7}}})
	}
	if err != nil {
		res.setup = "hung:config-unreadable"
		return res
	}
	logger := quietLogger()
	pool := transport.NewTransportPool(logger, v)
	cl, err := pool.Get("default")
	if err != nil {
		res.setup = "hung:pool-get"
		return res
	}
	res.timeoutGot = cl.Client.Timeout
	defer cl.Client.CloseIdleConnections()

	hc := &httpCase{Backend: c.Backend, Series: c.Series, PerBatch: 1, MaxReq: c.MaxReq, Window: c.Window, Retries: c.Retries}
	be, err := backendOnPool(hc, logger, pool, srv.URL)
	if err != nil {
		res.setup = "hung:backend-setup"
		return res
	}
	mock := clock.NewMock(time.Unix(1700000000, 0))
	ctx, cancel := context.WithCancel(clock.Context(context.Background(), mock))
	defer cancel()
	drv := startDriver(mock, newSpy(hc, cancel), hc, cancel) // only fires the back-off timers here
	defer drv.stop()
	p := &probe{}
	returned := make(chan struct{})
	go func() {
		defer close(returned)
		r.Guard(family(c.Backend)+":panic", payload, func() { be.SendMetricsAsync(ctx, gaugeMap("m", c.Series, ""), p.cb) })
	}()
	// bounded progress is the property: the only thing that can end an attempt is the client's real-clock
	// timeout, so real time is waited out generously
	mon.WaitUntil(callbackWatch, func() bool { return p.calls.Load() >= 1 })
	res.never = p.calls.Load() == 0
	res.requests = int(requests.Load())
	// quiescence: no handler left on the server, the call has returned; then cancel and stop the server
	if !res.never {
		mon.WaitUntil(settleWatch, func() bool {
			select {
			case <-returned:
				return inHandler.Load() == 0 && mock.Len() == 0
			default:
				return false
			}
		})
	}
	cancel()
	finish()
	select {
	case <-returned:
	case <-time.After(settleWatch):
	}
	res.calls = int(p.calls.Load())
	res.errs = p.first()
	return res
}

func runHungCase(r *mon.Run, c hungCase) {
	payload := replayCase{Hung: &c}
	fam := family(c.Backend)
	r.Case("hung-server %s", js(c))
	res := runHungOnce(r, c, payload)
	if res.setup != "" {
		r.Inconclusive(res.setup)
		return
	}
	want := time.Duration(c.TimeoutMS) * time.Millisecond
	describe := func(res hungResult) string {
		return fmt.Sprintf("%s on a pool configured (%s) with [transport.default] client-timeout=%v next to dialer-timeout and max-idle-connections; http.Client.Timeout=%v; server read %d request(s) and never answered; max-request-elapsed-time %s; callback invoked %d time(s), errors %v",
			c.Backend, c.Format, want, res.timeoutGot, res.requests, c.Window, res.calls, errStrings(res.errs))
	}
	if res.timeoutGot != want {
		r.Violation("transport:client-timeout:behavioural", describe(res), payload)
	}
	if res.never {
		again := runHungOnce(r, c, payload)
		if again.never {
			r.Violation(fam+":callback-never:hung-server", "no callback within 20s, twice in a row: "+describe(again), payload)
			r.Eval(1)
			return
		}
		r.Inconclusive("hung:callback-late:" + c.Backend)
		res = again
	}
	if res.requests == 0 {
		r.Inconclusive("hung:no-request-reached-the-server")
		return
	}
	if res.calls > 1 {
		r.Violation(fam+":callback-twice", describe(res), payload)
	}
	if !hasErr(res.errs) {
		r.Violation(fam+":no-error-on-undelivered", describe(res), payload)
	}
	r.Eval(1)
	r.Event("scripts:hung-server-"+c.Backend, 1)
	r.Event("callbacks", res.calls)
	r.Event("attempts", res.requests)
	r.Nontrivial(fmt.Sprintf("hung|%s|%s|%d|%s", c.Backend, c.Format, c.Series, c.Window))
	if c.ID == 1 {
		r.Sample(map[string]interface{}{"case": c, "requests_read_by_silent_server": res.requests, "callbacks": res.calls, "callback_errors": errStrings(res.errs)})
	}
}

var _ = rand.Int
