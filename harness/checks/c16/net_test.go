//go:build verif

package c16

import (
	"context"
	"fmt"
	"net"
	"strings"
	"sync"
	"sync/atomic"
	"time"

	"github.com/spf13/viper"

	"github.com/atlassian/gostatsd"
	"github.com/atlassian/gostatsd/pkg/backends"
	"github.com/atlassian/gostatsd/pkg/transport"

	"verif/mon"
	"verif/netx"
)

// The socket backends with their PRODUCTION dialer (built by backends.InitBackend from configuration
// text, nothing substituted) against a real loopback listener that accepts, drops and restarts, with
// long-lived senders crossing the reconnect thresholds (100 streams per connection, uptime larger than
// dial_timeout before a re-dial). The statement promises, for socket backends, one callback "when the
// connection recovers or the request is cancelled": whenever the listener is (again) accepting, every
// outstanding flush must be answered - exactly once.
//
// Real time appears here as workload shaping only: the uptime that must pass before the re-dial
// (dial_timeout is a real-clock quantity of the net package) and the sender's 1 s reconnect sleep. A
// flush that is not answered within the generous watchdog although the server is reachable is
// reproduced once before it is reported.

type netCase struct {
	ID            int    `json:"id"`
	Backend       string `json:"backend"` // graphite | statsdaemon
	Mode          string `json:"mode,omitempty"`
	Format        string `json:"format"`
	DialTimeoutMS int    `json:"dial_timeout_ms"`
	Scenario      string `json:"scenario"` // healthy | threshold | peer-drop | restart | late-start
}

// loopServer is a TCP sink on 127.0.0.1 which can drop its connections, stop and listen again on the same port.
type loopServer struct {
	mu       sync.Mutex
	addr     string
	ln       net.Listener
	conns    []net.Conn
	accepted atomic.Int64
	bytes    atomic.Int64
	wg       sync.WaitGroup
}

func (s *loopServer) listen() error {
	addr := s.addr
	if addr == "" {
		addr = netx.IP() + ":0" // the listener is stopped and re-opened on the same port: own loopback address
	}
	ln, err := net.Listen("tcp", addr)
	if err != nil {
		return err
	}
	s.mu.Lock()
	s.ln = ln
	s.addr = ln.Addr().String()
	s.mu.Unlock()
	s.wg.Add(1)
	go func() {
		defer s.wg.Done()
		for {
			c, err := ln.Accept()
			if err != nil {
				return
			}
			s.mu.Lock()
			s.conns = append(s.conns, c)
			s.mu.Unlock()
			s.accepted.Add(1)
			s.wg.Add(1)
			go func() {
				defer s.wg.Done()
				buf := make([]byte, 32768)
				for {
					n, err := c.Read(buf)
					s.bytes.Add(int64(n))
					if err != nil {
						_ = c.Close()
						return
					}
				}
			}()
		}
	}()
	return nil
}

func (s *loopServer) dropConns() {
	s.mu.Lock()
	for _, c := range s.conns {
		_ = c.Close()
	}
	s.conns = nil
	s.mu.Unlock()
}

func (s *loopServer) stop() {
	s.mu.Lock()
	if s.ln != nil {
		_ = s.ln.Close()
		s.ln = nil
	}
	s.mu.Unlock()
	s.dropConns()
}

func (s *loopServer) close() {
	s.stop()
	s.wg.Wait()
}

// socketBackendFromText builds the backend exactly like cmd/gostatsd does: configuration text -> viper ->
// backends.InitBackend.
func socketBackendFromText(backend, mode, format, addr string, dialTimeout time.Duration) (gostatsd.Backend, string, error) {
	var text string
	switch {
	case backend == "graphite" && format == "toml":
		text = fmt.Sprintf("backends = ['graphite']\nflush-interval = '1s'\n[graphite]\naddress = '%s'\ndial_timeout = '%s'\nwrite_timeout = '2s'\nmode = '%s'\n", addr, dialTimeout, mode)
	case backend == "graphite":
		text = fmt.Sprintf("backends: [graphite]\ngraphite:\n  address: '%s'\n  dial_timeout: '%s'\n  write_timeout: '2s'\n  mode: '%s'\n", addr, dialTimeout, mode)
	case format == "toml":
		text = fmt.Sprintf("backends = ['statsdaemon']\n[statsdaemon]\naddress = '%s'\ndial_timeout = '%s'\nwrite_timeout = '2s'\ntcp_transport = true\n", addr, dialTimeout)
	default:
		text = fmt.Sprintf("backends: [statsdaemon]\nstatsdaemon:\n  address: '%s'\n  dial_timeout: '%s'\n  write_timeout: '2s'\n  tcp_transport: true\n", addr, dialTimeout)
	}
	v := viper.New()
	v.SetConfigType(format)
	if err := v.ReadConfig(strings.NewReader(text)); err != nil {
		return nil, text, err
	}
	logger := quietLogger()
	be, err := backends.InitBackend(backend, v, logger, transport.NewTransportPool(logger, v))
	return be, text, err
}

type netResult struct {
	setup    string
	never    string // stage at which a flush stayed unanswered although the server was reachable
	missing  int
	twice    int
	early    int // answered with context.Canceled although no context had been cancelled
	flushes  int
	accepted int
	detail   string
}

func runNetOnce(r *mon.Run, c netCase, payload replayCase) (res netResult) {
	srv := &loopServer{}
	defer srv.close()
	if err := srv.listen(); err != nil {
		res.setup = "net:listen"
		return res
	}
	if c.Scenario == "late-start" { // reserve the port, nobody listens yet
		srv.stop()
	}
	dialTimeout := time.Duration(c.DialTimeoutMS) * time.Millisecond
	t0 := time.Now()
	be, text, err := socketBackendFromText(c.Backend, c.Mode, c.Format, srv.addr, dialTimeout)
	if err != nil {
		res.setup = "net:backend-setup"
		return res
	}
	runner, ok := be.(gostatsd.Runner)
	if !ok {
		res.setup = "net:not-a-runner"
		return res
	}
	ctx, cancel := context.WithCancel(context.Background())
	defer cancel()
	runDone := make(chan struct{})
	go func() {
		defer close(runDone)
		r.Guard(c.Backend+":panic", payload, func() { runner.Run(ctx) })
	}()

	var probes []*probe
	var stopIssued atomic.Bool
	var early atomic.Int64 // flushes answered with a cancellation before anybody cancelled anything
	submit := func() *probe {
		p := &probe{}
		p.onCb = func() {
			if !stopIssued.Load() && isCancellation(p.first()) {
				early.Add(1)
			}
		}
		probes = append(probes, p)
		be.SendMetricsAsync(context.Background(), gaugeMap(fmt.Sprintf("s%d", len(probes)), 2, ""), p.cb)
		return p
	}
	answered := func(ps ...*probe) bool {
		return mon.WaitUntil(callbackWatch, func() bool {
			for _, p := range ps {
				if p.calls.Load() < 1 {
					return false
				}
			}
			return true
		})
	}
	sequential := func(n int, stage string) bool {
		for i := 0; i < n; i++ {
			if !answered(submit()) {
				res.never = stage
				return false
			}
		}
		return true
	}
	// the process must have been up for longer than dial_timeout before the re-dial (workload shaping)
	waitUptime := func() {
		if d := dialTimeout*3/2 + 50*time.Millisecond - time.Since(t0); d > 0 {
			time.Sleep(d)
		}
	}
	relisten := func() bool {
		return mon.WaitUntil(callbackWatch, func() bool { return srv.listen() == nil })
	}

	func() {
		switch c.Scenario {
		case "healthy":
			if !sequential(5, "healthy-before") {
				return
			}
			waitUptime()
			sequential(5, "healthy-after-uptime")
		case "threshold": // the sender recycles its connection after 100 streams: a re-dial without any fault
			if !sequential(99, "first-connection") {
				return
			}
			waitUptime()
			sequential(6, "after-100-streams")
		case "peer-drop":
			if !sequential(3, "first-connection") {
				return
			}
			waitUptime()
			srv.dropConns()
			sequential(6, "after-peer-drop")
		case "restart":
			if !sequential(2, "first-connection") {
				return
			}
			waitUptime()
			srv.stop()
			a, b, d := submit(), submit(), submit()
			if !relisten() {
				res.setup = "net:relisten"
				return
			}
			if !answered(a, b, d) {
				res.never = "after-restart"
				return
			}
			sequential(2, "after-restart-steady")
		case "late-start":
			a, b := submit(), submit()
			waitUptime()
			if !relisten() {
				res.setup = "net:relisten"
				return
			}
			if !answered(a, b) {
				res.never = "after-late-start"
				return
			}
			sequential(2, "after-late-start-steady")
		}
	}()

	// quiescence: stop the sender; after Run has returned nothing can call back any more
	stopIssued.Store(true)
	cancel()
	returned := true
	select {
	case <-runDone:
	case <-time.After(callbackWatch):
		returned = false
	}
	res.flushes = len(probes)
	res.early = int(early.Load())
	res.accepted = int(srv.accepted.Load())
	for _, p := range probes {
		switch n := p.calls.Load(); {
		case n == 0:
			res.missing++
		case n > 1:
			res.twice++
		}
	}
	res.detail = fmt.Sprintf("%s built by backends.InitBackend from %q, scenario %s: %d flushes, %d without callback, %d called back twice, %d answered with a cancellation nobody issued, unanswered at stage %q, listener accepted %d connection(s) and read %d bytes, Run returned after cancel: %v, uptime %v",
		c.Backend, text, c.Scenario, res.flushes, res.missing, res.twice, res.early, res.never, res.accepted, srv.bytes.Load(), returned, time.Since(t0).Round(time.Millisecond))
	if !returned && res.missing == 0 && res.setup == "" {
		res.setup = "net:run-not-returned"
	}
	return res
}

var netNeverSeen sync.Map

func runNetCase(r *mon.Run, c netCase) {
	payload := replayCase{Net: &c}
	if _, dup := netNeverSeen.Load(c.Backend + "|" + c.Scenario); dup {
		r.Event("skipped_after_callback_never", 1)
		return
	}
	r.Case("net %s", js(c))
	res := runNetOnce(r, c, payload)
	if res.setup != "" {
		r.Inconclusive(res.setup)
		return
	}
	if res.never != "" {
		again := runNetOnce(r, c, payload)
		if again.setup == "" && again.never != "" {
			netNeverSeen.Store(c.Backend+"|"+c.Scenario, true)
			r.Violation(fmt.Sprintf("%s:callback-never:net-%s", c.Backend, c.Scenario), "a flush stayed unanswered for 20s although the server was accepting connections, twice in a row: "+again.detail, payload)
			r.Eval(1)
			return
		}
		r.Inconclusive("net:callback-late:" + c.Backend)
		res = again
		if res.setup != "" {
			return
		}
	}
	if res.missing > 0 {
		r.Violation(fmt.Sprintf("%s:callback-missing:net-%s", c.Backend, c.Scenario), res.detail, payload)
	}
	if res.twice > 0 {
		r.Violation(c.Backend+":callback-twice", res.detail, payload)
	}
	if res.early > 0 {
		r.Violation(fmt.Sprintf("%s:cancelled-but-never-cancelled:net-%s", c.Backend, c.Scenario), res.detail, payload)
	}
	r.Eval(1)
	r.Event("scripts:net-"+c.Backend, 1)
	r.Event("callbacks", res.flushes-res.missing)
	r.Event("flush_requests", res.flushes)
	r.Event("net_connections_accepted", res.accepted)
	if c.Scenario != "healthy" && res.accepted >= 1 {
		r.Nontrivial(fmt.Sprintf("net|%s|%s|%s|%d|%s", c.Backend, c.Mode, c.Scenario, c.DialTimeoutMS, c.Format))
	}
}

func netCases(r *mon.Run) []netCase {
	var out []netCase
	timeouts := []int{120, 200}
	if r.Thorough() {
		timeouts = []int{80, 120, 200, 350}
	}
	i := 0
	for _, sc := range []string{"healthy", "threshold", "peer-drop", "restart", "late-start"} {
		for _, dt := range timeouts {
			for _, be := range []string{"graphite", "statsdaemon"} {
				c := netCase{ID: len(out), Backend: be, Format: []string{"toml", "yaml"}[i%2], DialTimeoutMS: dt, Scenario: sc}
				if be == "graphite" {
					c.Mode = []string{"tags", "basic", "legacy"}[i%3]
				}
				i++
				out = append(out, c)
			}
		}
	}
	return out
}

func runNetPhase(r *mon.Run) {
	cases := netCases(r)
	var mine []int
	for i := range cases {
		if r.Mine(i + 2) {
			mine = append(mine, i)
		}
	}
	parallel(mine, 16, func(i int) { runNetCase(r, cases[i]) })
	r.Extra("net_cases_total", len(mine))
}
