//go:build verif

package c16

import (
	"context"
	"errors"
	"fmt"
	"net"
	"sync"
	"sync/atomic"
	"time"

	"github.com/spf13/viper"

	"github.com/atlassian/gostatsd"
	"github.com/atlassian/gostatsd/pkg/statsd"

	"verif/mon"
)

// Server level: the real statsd.Server (RunWithCustomSocket stacks receiver, parser, handlers, flusher and
// the backends' own Run loops and stops them stage by stage) with socket backends built from
// configuration text and wired exactly like cmd/gostatsd does (Backends + Runnables via
// MaybeAppendRunnable), a real-clock flush interval of a millisecond or two so that flush ticks fall
// into the start-up and shutdown windows, and repeated start/stop cycles. Every SendMetricsAsync the
// server issues is observed by a counting wrapper; when RunWithCustomSocket has returned every one of
// them must have been answered exactly once, and nothing may have crashed (a panic on a worker
// goroutine kills the child process: the driver reports crash:<function> with the r.Case line).

type srvCase struct {
	ID       int      `json:"id"`
	Backends []string `json:"backends"` // graphite | statsdaemon
	Workers  int      `json:"workers"`
	FlushUS  int      `json:"flush_interval_us"`
	MinCalls int      `json:"min_calls"` // flush requests to observe before the shutdown
	Cycles   int      `json:"cycles"`
	Statser  string   `json:"statser"`
	Feed     bool     `json:"feed"` // push datagrams while running
}

type callRec struct{ calls atomic.Int32 }

// countingBackend observes the flush requests of one backend. It must not change what the server sees:
// the Runner wrapper exists so that MaybeAppendRunnable finds Run exactly when the real backend has one.
type countingBackend struct {
	inner gostatsd.Backend
	mu    sync.Mutex
	recs  []*callRec
	n     atomic.Int64
}

func (b *countingBackend) Name() string { return b.inner.Name() }
func (b *countingBackend) SendEvent(ctx context.Context, e *gostatsd.Event) error {
	return b.inner.SendEvent(ctx, e)
}
func (b *countingBackend) SendMetricsAsync(ctx context.Context, mm *gostatsd.MetricMap, cb gostatsd.SendCallback) {
	rec := &callRec{}
	b.mu.Lock()
	b.recs = append(b.recs, rec)
	b.mu.Unlock()
	b.n.Add(1)
	b.inner.SendMetricsAsync(ctx, mm, func(errs []error) {
		rec.calls.Add(1)
		cb(errs)
	})
}
func (b *countingBackend) tally() (total, missing, twice int) {
	b.mu.Lock()
	defer b.mu.Unlock()
	for _, rec := range b.recs {
		total++
		switch n := rec.calls.Load(); {
		case n == 0:
			missing++
		case n > 1:
			twice++
		}
	}
	return
}

type countingRunner struct{ *countingBackend }

func (b countingRunner) Run(ctx context.Context) { b.inner.(gostatsd.Runner).Run(ctx) }

// feedConn is the server's datagram socket: the harness pushes statsd lines into it.
type feedConn struct {
	ch     chan []byte
	closed chan struct{}
	once   sync.Once
}

func (c *feedConn) ReadFrom(b []byte) (int, net.Addr, error) {
	select {
	case p := <-c.ch:
		return copy(b, p), &net.UDPAddr{IP: net.IPv4(10, 0, 0, 1), Port: 40000}, nil
	case <-c.closed:
		return 0, nil, errors.New("use of closed network connection")
	}
}
func (c *feedConn) WriteTo([]byte, net.Addr) (int, error) { return 0, errors.New("not supported") }
func (c *feedConn) Close() error                          { c.once.Do(func() { close(c.closed) }); return nil }
func (c *feedConn) LocalAddr() net.Addr                   { return &net.UDPAddr{IP: net.IPv4(127, 0, 0, 1), Port: 8125} }
func (c *feedConn) SetDeadline(time.Time) error           { return nil }
func (c *feedConn) SetReadDeadline(time.Time) error       { return nil }
func (c *feedConn) SetWriteDeadline(time.Time) error      { return nil }

func runServerCycle(r *mon.Run, c srvCase, cycle int, srv *loopServer, payload replayCase) (inconclusive string, violations [][2]string) {
	var wrapped []*countingBackend
	var bs []gostatsd.Backend
	var runnables []gostatsd.Runnable
	for i, name := range c.Backends {
		be, _, err := socketBackendFromText(name, "tags", []string{"toml", "yaml"}[(c.ID+i)%2], srv.addr, 2*time.Second)
		if err != nil {
			return "server:backend-setup", nil
		}
		cb := &countingBackend{inner: be}
		wrapped = append(wrapped, cb)
		var b gostatsd.Backend = cb
		if _, ok := be.(gostatsd.Runner); ok {
			b = countingRunner{cb}
		}
		bs = append(bs, b)
		runnables = gostatsd.MaybeAppendRunnable(runnables, b) // as cmd/gostatsd does
	}
	s := &statsd.Server{
		Backends: bs, Runnables: runnables,
		ExpiryIntervalCounter: time.Minute, ExpiryIntervalGauge: time.Minute, ExpiryIntervalSet: time.Minute, ExpiryIntervalTimer: time.Minute,
		FlushInterval: time.Duration(c.FlushUS) * time.Microsecond, MaxReaders: 1, MaxParsers: 1, MaxWorkers: c.Workers, MaxQueueSize: 16, MaxConcurrentEvents: 2,
		EstimatedTags: 2, StatserType: c.Statser, PercentThreshold: []float64{90}, ReceiveBatchSize: 1, ServerMode: "standalone",
		Hostname: "h", DisableInternalEvents: true, Viper: viper.New(), HeartbeatEnabled: cycle%2 == 1,
	}
	conn := &feedConn{ch: make(chan []byte), closed: make(chan struct{})}
	ctx, cancel := context.WithCancel(context.Background())
	defer cancel()
	done := make(chan struct{})
	go func() {
		defer close(done)
		r.Guard("server:panic", payload, func() {
			_ = s.RunWithCustomSocket(ctx, func() (net.PacketConn, error) { return conn, nil })
		})
	}()
	stopFeed := make(chan struct{})
	var feedWG sync.WaitGroup
	if c.Feed {
		feedWG.Add(1)
		go func() {
			defer feedWG.Done()
			for i := 0; ; i++ {
				select {
				case conn.ch <- []byte(fmt.Sprintf("g%d:%d|g\nc%d:1|c", i%5, i, i%3)):
				case <-stopFeed:
					return
				case <-conn.closed:
					return
				}
			}
		}()
	}
	total := func() int64 {
		var n int64
		for _, w := range wrapped {
			n += w.n.Load()
		}
		return n
	}
	observed := mon.WaitUntil(callbackWatch, func() bool { return total() >= int64(c.MinCalls) })
	cancel() // shutdown with flush ticks still arriving every FlushInterval
	returned := true
	select {
	case <-done:
	case <-time.After(callbackWatch):
		returned = false
	}
	close(stopFeed)
	feedWG.Wait()
	if !observed {
		return "server:no-flush-observed", nil
	}
	for i, w := range wrapped {
		tot, missing, twice := w.tally()
		r.Event("flush_requests", tot)
		r.Event("callbacks", tot-missing)
		what := fmt.Sprintf("server with backends %v (%d workers, flush interval %dus, statser %s), cycle %d, backend %s: %d flush requests, %d never answered, %d answered twice; RunWithCustomSocket returned after cancel: %v",
			c.Backends, c.Workers, c.FlushUS, c.Statser, cycle, c.Backends[i], tot, missing, twice, returned)
		switch {
		case missing > 0 && returned:
			violations = append(violations, [2]string{"server:callback-missing:shutdown:" + c.Backends[i], what})
		case missing > 0:
			violations = append(violations, [2]string{"server:callback-never:shutdown:" + c.Backends[i], what})
		}
		if twice > 0 {
			violations = append(violations, [2]string{"server:callback-twice:" + c.Backends[i], what})
		}
	}
	if !returned && len(violations) == 0 {
		return "server:run-not-returned", nil
	}
	return "", violations
}

func runServerCase(r *mon.Run, c srvCase) {
	payload := replayCase{Server: &c}
	srv := &loopServer{}
	if err := srv.listen(); err != nil {
		r.Inconclusive("server:listen")
		return
	}
	defer srv.close()
	for cycle := 0; cycle < c.Cycles; cycle++ {
		r.Case("server %s cycle=%d", js(c), cycle)
		inc, viols := runServerCycle(r, c, cycle, srv, payload)
		if inc != "" {
			r.Inconclusive(inc)
			return
		}
		for _, v := range viols {
			r.Violation(v[0], v[1], payload)
		}
		r.Eval(1)
		r.Event("scripts:server-start-stop", 1)
		if len(viols) > 0 {
			return
		}
	}
	r.Event("net_connections_accepted", int(srv.accepted.Load()))
	r.Nontrivial(fmt.Sprintf("server|%v|%d|%d|%s|%v", c.Backends, c.Workers, c.FlushUS, c.Statser, c.Feed))
}

func serverCases(r *mon.Run) []srvCase {
	rng := r.RandGlobal("server-cases")
	n := r.Pick(24, 96)
	var out []srvCase
	for i := 0; i < n; i++ {
		c := srvCase{ID: i, Workers: 1 + rng.Intn(3), FlushUS: []int{500, 1000, 2000, 5000}[rng.Intn(4)], MinCalls: 3 + rng.Intn(30),
			Cycles: r.Pick(6, 10), Statser: []string{gostatsd.StatserNull, gostatsd.StatserInternal}[rng.Intn(2)], Feed: rng.Intn(3) > 0}
		c.Backends = [][]string{{"graphite"}, {"statsdaemon"}, {"graphite", "statsdaemon"}}[i%3]
		out = append(out, c)
	}
	return out
}

func runServerPhase(r *mon.Run) {
	cases := serverCases(r)
	n := 0
	for i, c := range cases {
		if r.Mine(i) {
			n++
			runServerCase(r, c)
			if r.Violations() > 30 {
				break
			}
		}
	}
	r.Extra("server_cases_total", n)
}
