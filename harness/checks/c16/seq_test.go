//go:build verif

package c16

import (
	"context"
	"fmt"
	"sync"
	"time"

	"github.com/tilinna/clock"

	"verif/mon"
)

// Sequences of flushes on ONE long-lived client. Earlier flushes are cancelled with 1..max-requests
// requests in flight at a slow (hung) peer, fail over the whole retry window, are cancelled before the
// call, or succeed; then flushes with fresh contexts meet a healthy peer. "A failed flush does not prevent
// the following flushes from being attempted": every later flush must be answered exactly once, without
// error, and its batches must have been delivered.

type seqCase struct {
	ID      int      `json:"id"`
	Backend string   `json:"backend"`
	MaxReq  int      `json:"max_requests"`
	Series  int      `json:"series"`
	Rounds  []string `json:"rounds"`  // cancel-hang | fail | cancel-before | ok
	Healthy int      `json:"healthy"` // flushes with fresh contexts against the healthy peer afterwards
}

type seqFlush struct {
	kind   string
	p      *probe
	cancel context.CancelFunc
	done   chan struct{} // SendMetricsAsync returned
}

type seqResult struct {
	setup   string
	sig     string
	detail  string
	never   bool
	flushes int
	failed  int // earlier flushes that were cancelled / failed with requests observed
}

func runSeqOnce(r *mon.Run, c seqCase, payload replayCase) (res seqResult) {
	logger := quietLogger()
	hc := &httpCase{Backend: c.Backend, Series: c.Series, PerBatch: 1, MaxReq: c.MaxReq, Window: "1s", Retries: 20, Scripts: [][]string{{"ok"}}}
	be, spy, err := buildBackend(hc, logger, func() {})
	if err != nil {
		res.setup = "seq:setup:" + c.Backend
		return res
	}
	mock := clock.NewMock(time.Unix(1700000000, 0))
	base := clock.Context(context.Background(), mock)
	stop := make(chan struct{})
	var drv sync.WaitGroup
	drv.Add(1)
	go func() { // fires the back-off timers of whichever flush is retrying
		defer drv.Done()
		for {
			select {
			case <-stop:
				return
			default:
			}
			if mock.Len() > 0 {
				mock.AddNext()
			}
			time.Sleep(30 * time.Microsecond)
		}
	}()
	var flushes []*seqFlush
	defer func() {
		for _, f := range flushes {
			f.cancel()
		}
		close(stop)
		drv.Wait()
	}()

	start := func(kind string, preCancelled bool) *seqFlush {
		ctx, cancel := context.WithCancel(base)
		if preCancelled {
			cancel()
		}
		f := &seqFlush{kind: kind, p: &probe{}, cancel: cancel, done: make(chan struct{})}
		flushes = append(flushes, f)
		mm := gaugeMap(fmt.Sprintf("f%d", len(flushes)), c.Series, "")
		go func() {
			defer close(f.done)
			r.Guard(family(c.Backend)+":panic", payload, func() { be.SendMetricsAsync(ctx, mm, f.p.cb) })
		}()
		return f
	}
	// One flush at a time, as with a single aggregator worker: the next one starts when the call has returned
	// (otlp reports its statistics after the callback, concurrent calls race on them - outside C16).
	answered := func(f *seqFlush) bool {
		if !mon.WaitUntil(callbackWatch, func() bool { return f.p.calls.Load() >= 1 }) {
			return false
		}
		mon.WaitUntil(settleWatch, func() bool {
			select {
			case <-f.done:
				return true
			default:
				return false
			}
		})
		return true
	}
	describe := func(what string, i int) string {
		kinds := []string{}
		for _, f := range flushes {
			kinds = append(kinds, fmt.Sprintf("%s:%d", f.kind, f.p.calls.Load()))
		}
		s := spy.summary()
		return fmt.Sprintf("%s, one client, max-requests %d, %d series per flush (one per batch): flush %d %s; flushes so far (kind:callbacks) %v; the transport saw %d batches / %d attempts, %d batches without a 2xx, %d request(s) still in flight",
			c.Backend, c.MaxReq, c.Series, i, what, kinds, s.Batches, s.Attempts, s.Undelivered, spy.inflight.Load())
	}
	inflightWanted := int64(minInt(maxInt(c.Series, 1), c.MaxReq))
	if c.Backend == "cloudwatch" || c.Series == 0 {
		inflightWanted = 1
	}

	// phase 1: the earlier flushes
	for i, kind := range c.Rounds {
		switch kind {
		case "cancel-hang":
			spy.setOverride("hang")
			f := start(kind, false)
			// shaping: let the requests reach the slow peer before the cancellation
			if c.Series > 0 || c.Backend == "otlp" {
				if mon.WaitUntil(settleWatch, func() bool { return spy.hanging.Load() >= inflightWanted }) {
					res.failed++
				} else {
					r.Event("seq_requests_did_not_reach_the_peer", 1)
				}
			}
			f.cancel()
			if !answered(f) {
				res.never, res.sig = true, "callback-never:cancelled-in-flight"
				res.detail = describe("was cancelled with requests in flight and never answered", i)
				return res
			}
		case "fail":
			spy.setOverride("500")
			f := start(kind, false)
			if !answered(f) {
				res.never, res.sig = true, "callback-never:after-cancelled-flushes"
				res.detail = describe("(every attempt answered 500, 1s virtual retry window) was never answered", i)
				return res
			}
			res.failed++
		case "cancel-before":
			spy.setOverride("ok")
			f := start(kind, true)
			if !answered(f) {
				res.never, res.sig = true, "callback-never:cancel-before"
				res.detail = describe("was issued with a cancelled context and never answered", i)
				return res
			}
		default:
			spy.setOverride("ok")
			f := start("ok", false)
			if !answered(f) {
				res.never, res.sig = true, "callback-never:after-cancelled-flushes"
				res.detail = describe("(healthy peer) was never answered", i)
				return res
			}
		}
	}
	// the hung requests of the cancelled flushes have ended (the peer saw the cancellation)
	mon.WaitUntil(settleWatch, func() bool { return spy.inflight.Load() == 0 })

	// phase 2: fresh contexts, healthy peer
	spy.setOverride("ok")
	for j := 0; j < c.Healthy; j++ {
		f := start("healthy", false)
		i := len(flushes) - 1
		if !answered(f) {
			res.never, res.sig = true, "callback-never:after-cancelled-flushes"
			res.detail = describe("has a fresh context and a healthy peer but was never answered", i)
			return res
		}
		mon.WaitUntil(settleWatch, func() bool {
			select {
			case <-f.done:
				return spy.inflight.Load() == 0
			default:
				return false
			}
		})
		errs := f.p.first()
		newBatches, newUndelivered := spy.tagged(fmt.Sprintf("f%d", len(flushes))) // the batches carrying this flush's series
		switch {
		case hasErr(errs) && newUndelivered == 0:
			res.sig = "error-on-delivered"
			res.detail = describe(fmt.Sprintf("met a healthy peer (%d new batches, all answered 2xx) but its callback carried %v", newBatches, errStrings(errs)), i)
			return res
		case newUndelivered > 0 && !hasErr(errs):
			res.sig = "no-error-on-undelivered"
			res.detail = describe(fmt.Sprintf("left %d of %d new batches without a 2xx and reported no error", newUndelivered, newBatches), i)
			return res
		case (c.Series > 0 || c.Backend == "otlp") && newBatches == 0 && !hasErr(errs):
			res.sig = "not-attempted-after-failed-flush"
			res.detail = describe("was answered without error although no request of it reached the healthy peer", i)
			return res
		}
	}

	// quiescence, then every flush of the sequence exactly once
	for _, f := range flushes {
		f.cancel()
	}
	mon.WaitUntil(settleWatch, func() bool {
		for _, f := range flushes {
			select {
			case <-f.done:
			default:
				return false
			}
		}
		return spy.inflight.Load() == 0 && mock.Len() == 0
	})
	res.flushes = len(flushes)
	for i, f := range flushes {
		if n := f.p.calls.Load(); n != 1 {
			res.sig = "callback-twice"
			if n == 0 {
				res.sig = "callback-missing:sequence"
			}
			res.detail = describe(fmt.Sprintf("(%s) was answered %d times", f.kind, n), i)
			return res
		}
	}
	return res
}

func maxInt(a, b int) int {
	if a > b {
		return a
	}
	return b
}

var seqNeverSeen sync.Map

func runSeqCase(r *mon.Run, c seqCase) {
	payload := replayCase{Seq: &c}
	fam := family(c.Backend)
	if _, dup := seqNeverSeen.Load(fam); dup {
		r.Event("skipped_after_callback_never", 1)
		return
	}
	r.Case("sequence %s", js(c))
	res := runSeqOnce(r, c, payload)
	if res.setup != "" {
		r.Inconclusive(res.setup)
		return
	}
	if res.never { // bounded progress in a deterministic script: confirm once
		again := runSeqOnce(r, c, payload)
		if again.never {
			seqNeverSeen.Store(fam, true)
			r.Violation(fam+":"+again.sig, "twice in a row: "+again.detail, payload)
			r.Eval(1)
			return
		}
		r.Inconclusive("seq:callback-late:" + c.Backend)
		res = again
	}
	if res.sig != "" {
		r.Violation(fam+":"+res.sig, res.detail, payload)
	}
	r.Eval(1)
	r.Event("scripts:sequence-"+c.Backend, 1)
	r.Event("callbacks", res.flushes)
	r.Event("flush_requests", res.flushes)
	if res.failed > 0 {
		r.Nontrivial(fmt.Sprintf("seq|%s|%d|%d|%v", c.Backend, c.MaxReq, c.Series, c.Rounds))
	}
}

func seqCases(r *mon.Run) []seqCase {
	rng := r.RandGlobal("sequence-cases")
	var out []seqCase
	kinds := []string{"cancel-hang", "cancel-hang", "cancel-hang", "fail", "cancel-before", "ok"}
	patterns := r.Pick(2, 8)
	for _, be := range []string{"datadog", "influxdb-v1", "influxdb-v2", "newrelic-infra", "newrelic-insights", "newrelic-metrics", "otlp", "cloudwatch"} {
		for m := 1; m <= 3; m++ {
			for p := 0; p < patterns; p++ {
				c := seqCase{ID: len(out), Backend: be, MaxReq: m, Series: 1 + rng.Intn(4), Healthy: 2 + rng.Intn(2)}
				if be == "cloudwatch" {
					c.Series = []int{5, 25, 45}[rng.Intn(3)]
				}
				n := m + rng.Intn(3)
				hangs := 0
				for i := 0; i < n; i++ {
					k := kinds[rng.Intn(len(kinds))]
					if k == "cancel-hang" {
						hangs++
					}
					c.Rounds = append(c.Rounds, k)
				}
				for hangs < m { // at least max-requests flushes are cancelled with requests in flight
					c.Rounds = append(c.Rounds, "cancel-hang")
					hangs++
				}
				out = append(out, c)
			}
		}
	}
	return out
}

func runSeqPhase(r *mon.Run) {
	cases := seqCases(r)
	n := 0
	for i, c := range cases {
		if r.Mine(i + 1) {
			n++
			runSeqCase(r, c)
			if r.Violations() > 30 {
				break
			}
		}
	}
	r.Extra("sequence_cases_total", n)
}
