//go:build verif

package c07

// Stage routes of C07 that regroup the same datapoints through the two pipeline stages which keep
// per-call or per-host state:
//
//	cloud-rounds       the real CloudHandler.Run behind a cache that never has an answer ready; the same
//	                   batches are parked and released in different groupings (all batches before any
//	                   answer; batch -> answer -> batch -> answer for the same host, interleaved with other
//	                   hosts; answers that find nothing), and everything forwarded downstream, folded, must
//	                   be the reference fold of the datapoints with the answers' enrichment applied.
//	tag-stage-scoped   the real TagHandler with name-scoped filters (match-metrics / exclude-metrics that
//	                   apply to some names only, drop-tags / drop-host / drop-metric actions), fed with
//	                   the same datapoints as one map, as several maps and as one map per datapoint; what
//	                   leaves the stage is compared, by the (name, tags, source) each series carries, with
//	                   the reference fold of the datapoints after the documented filter rules.

import (
	"context"
	"fmt"
	"math/rand"
	"regexp"
	"sort"
	"strings"
	"sync"
	"time"

	"github.com/atlassian/gostatsd"
	"github.com/atlassian/gostatsd/pkg/statsd"

	"verif/gen"
	"verif/mon"
	"verif/ref"
)

// ---------------------------------------------------------------------------------------------
// cloud-rounds

type cloudStep struct {
	Op     string `json:"op"` // "batch" | "answer"
	Batch  int    `json:"batch,omitempty"`
	Source string `json:"source,omitempty"`
}

type cloudCase struct {
	Kind     string            `json:"kind"` // "cloud"
	Batches  [][]ref.Datapoint `json:"batches"`
	Found    map[string]bool   `json:"found"` // per host: the lookup finds an instance (else: fails / finds nothing)
	Grouping string            `json:"grouping"`
	Steps    []cloudStep       `json:"steps"`
}

const cloudTag = "cloud:az1"

func instanceFor(src string) *gostatsd.Instance {
	return &gostatsd.Instance{ID: gostatsd.Source("i-" + src), Tags: gostatsd.Tags{cloudTag}}
}

// cloudReference: every datapoint with a host is enriched by the answer for its host, the others pass.
func cloudReference(cs *cloudCase) *ref.Folded {
	f := ref.NewFolded()
	for _, b := range cs.Batches {
		for _, d := range b {
			if d.Source != "" && cs.Found[d.Source] {
				d.Tags = append(append([]string{}, d.Tags...), cloudTag)
				d.Source = "i-" + d.Source
			}
			f.AddDatapoint(d)
		}
	}
	return f
}

// genCloudSteps writes the script of one grouping over the batches.
func genCloudSteps(rng *rand.Rand, batches [][]ref.Datapoint, grouping string) []cloudStep {
	var steps []cloudStep
	parked := map[string]bool{}
	answer := func(only func() bool) {
		srcs := make([]string, 0, len(parked))
		for s := range parked {
			srcs = append(srcs, s)
		}
		sort.Strings(srcs)
		rng.Shuffle(len(srcs), func(i, j int) { srcs[i], srcs[j] = srcs[j], srcs[i] })
		for _, s := range srcs {
			if only == nil || only() {
				steps = append(steps, cloudStep{Op: "answer", Source: s})
				delete(parked, s)
			}
		}
	}
	for _, i := range rng.Perm(len(batches)) {
		steps = append(steps, cloudStep{Op: "batch", Batch: i})
		for _, d := range batches[i] {
			if d.Source != "" {
				parked[d.Source] = true
			}
		}
		switch grouping {
		case "all-parked-first":
		case "answer-after-every-batch":
			answer(nil)
		default: // "interleaved"
			answer(func() bool { return rng.Intn(2) == 0 })
		}
	}
	answer(nil)
	return steps
}

const (
	cloudOK = iota
	cloudNoLookup
	cloudNotForwarded
	cloudOther
)

// runCloudRounds plays the script. It waits on logical conditions only: a lookup request for the host on
// IpSink before the host is answered, and the expected number of maps downstream after every answer.
func (c *checker) runCloudRounds(cs *cloudCase, watchdog time.Duration) (map[string]*ref.Series, int, string) {
	h := &captureHandler{}
	fc := &fakeCache{sink: make(chan gostatsd.Source, 256), info: make(chan gostatsd.InstanceInfo)}
	ch := statsd.NewCloudHandler(fc, h)
	ctx, cancel := context.WithCancel(context.Background())
	defer cancel()
	done := make(chan struct{})
	go func() { defer close(done); ch.Run(ctx) }()

	expected := int64(0)
	requested := map[string]int{}
	lookups := 0
	for si, st := range cs.Steps {
		switch st.Op {
		case "batch":
			for _, d := range cs.Batches[st.Batch] {
				if d.Source == "" {
					expected++
					break
				}
			}
			sent := make(chan struct{})
			mm := gen.MapOf(cs.Batches[st.Batch])
			go func() { defer close(sent); ch.DispatchMetricMap(ctx, mm) }()
			select {
			case <-sent:
			case <-time.After(watchdog):
				return nil, cloudOther, fmt.Sprintf("step %d: DispatchMetricMap of batch %d did not return", si, st.Batch)
			}
		case "answer":
			// a real cache answers requests: the stage must have asked for this host since it was (re)parked
			for requested[st.Source] == 0 {
				select {
				case s := <-fc.sink:
					requested[string(s)]++
					lookups++
				case <-time.After(watchdog):
					return nil, cloudNoLookup, fmt.Sprintf("step %d: datapoints of host %q are parked but no lookup for it was requested on IpSink", si, st.Source)
				}
			}
			requested[st.Source]--
			info := gostatsd.InstanceInfo{IP: gostatsd.Source(st.Source)}
			if cs.Found[st.Source] {
				info.Instance = instanceFor(st.Source)
			}
			select {
			case fc.info <- info:
			case <-time.After(watchdog):
				return nil, cloudOther, fmt.Sprintf("step %d: the stage does not take the answer for %q", si, st.Source)
			}
			expected++
			want := expected
			if !mon.WaitUntil(watchdog, func() bool { return h.n.Load() >= want }) {
				return nil, cloudNotForwarded, fmt.Sprintf("step %d: the batch parked for host %q was not forwarded after its lookup was answered (%d maps downstream, %d expected)", si, st.Source, h.n.Load(), want)
			}
		}
	}
	cancel()
	<-done
	c.r.Event("cloud_lookups_requested", lookups)
	if n := h.n.Load(); n != expected {
		return h.folded(), cloudOK, fmt.Sprintf("%d maps forwarded, %d expected", n, expected)
	}
	return h.folded(), cloudOK, ""
}

func (c *checker) cloudRounds(cs *cloudCase) {
	r := c.r
	if c.cloudBroken {
		r.Event("cloud_rounds_skipped_after_stuck", 1)
		return
	}
	got, status, msg := c.runCloudRounds(cs, 10*time.Second)
	if status != cloudOK {
		// bounded progress is what is observed here: the script is deterministic and every parked host
		// has been answered (or should have been asked for). Once more before reporting:
		r.Event("cloud_rounds_stuck_retry", 1)
		var status2 int
		got, status2, msg = c.runCloudRounds(cs, 10*time.Second)
		if status2 != cloudOK {
			c.cloudBroken = true
			sig := map[int]string{cloudNoLookup: "lookup-never-requested-for-parked-host", cloudNotForwarded: "parked-batch-never-forwarded", cloudOther: "stage-stuck"}[status2]
			r.Violation("cloud-rounds:"+sig, fmt.Sprintf("grouping %s (reproduced twice): %s", cs.Grouping, msg), cs)
			return
		}
		r.Inconclusive("cloud-rounds-stuck-once")
	}
	if msg != "" {
		r.Violation("cloud-rounds:forwarded-map-count", fmt.Sprintf("grouping %s: %s", cs.Grouping, msg), cs)
	}
	c.compare("cloud-rounds", got, cloudReference(cs), true, cs)
	if o := analyse(&family{Batches: cs.Batches}); o.nontrivi {
		nAns, reparked := 0, 0
		seen := map[string]bool{}
		for _, st := range cs.Steps {
			if st.Op == "answer" {
				nAns++
				if seen[st.Source] {
					reparked++
				}
				seen[st.Source] = true
			}
		}
		if reparked > 3 {
			reparked = 3
		}
		nFound := 0
		for _, f := range cs.Found {
			if f {
				nFound++
			}
		}
		r.Nontrivial(fmt.Sprintf("cloud-rounds|%s|n%d|hosts%d|found%d|reparked%d|ov%04b", cs.Grouping, len(cs.Batches), len(cs.Found), nFound, reparked, o.mask))
		r.Event("cloud_hosts_parked_again_after_answer", reparked)
	}
}

var cloudGroupings = []string{"all-parked-first", "answer-after-every-batch", "interleaved"}

// genCloud draws one family and returns it once per grouping (same batches, same answers).
func genCloud(rng *rand.Rand) []*cloudCase {
	o := gen.MapOpts{Names: 2, TagPool: 2, MaxTags: 1, Sources: 3, Exact: true, TimeBase: 1000, TimeSpread: int64(2 + rng.Intn(4))}
	if rng.Intn(3) == 0 {
		o.Sources = 2 // one host only: batch -> answer -> batch -> answer with nothing else parked in between
	}
	var batches [][]ref.Datapoint
	for i, n := 0, 2+rng.Intn(6); i < n; i++ {
		batches = append(batches, gen.Datapoints(rng, o, 1+rng.Intn(5)))
	}
	found := map[string]bool{}
	for _, b := range batches {
		for _, d := range b {
			if d.Source != "" {
				if _, ok := found[d.Source]; !ok {
					found[d.Source] = rng.Intn(3) != 0
				}
			}
		}
	}
	var out []*cloudCase
	for _, g := range cloudGroupings {
		out = append(out, &cloudCase{Kind: "cloud", Batches: batches, Found: found, Grouping: g, Steps: genCloudSteps(rng, batches, g)})
	}
	return out
}

// ---------------------------------------------------------------------------------------------
// tag-stage-scoped: the filter rules of FILTERING.md, re-stated (same reading as the C10 monitor)

type scopedFilter struct {
	MatchMetrics   []string `json:"match_metrics"`
	ExcludeMetrics []string `json:"exclude_metrics"`
	MatchTags      []string `json:"match_tags"`
	DropTags       []string `json:"drop_tags"`
	DropMetric     bool     `json:"drop_metric"`
	DropHost       bool     `json:"drop_host"`
}

type scopedCase struct {
	Kind     string            `json:"kind"` // "scoped"
	Batches  [][]ref.Datapoint `json:"batches"`
	Static   []string          `json:"static"`
	Filters  []scopedFilter    `json:"filters"`
	Grouping string            `json:"grouping"` // "one-map" | "map-per-batch" | "map-per-datapoint"
}

var (
	scopedReMu sync.Mutex
	scopedRe   = map[string]*regexp.Regexp{}
)

func scopedRegexp(expr string) *regexp.Regexp {
	scopedReMu.Lock()
	defer scopedReMu.Unlock()
	re, ok := scopedRe[expr]
	if !ok {
		re = regexp.MustCompile(expr)
		scopedRe[expr] = re
	}
	return re
}

// patternHits: exact match; trailing '*' = prefix match; leading '!' negates; "regex:" = substring regexp.
func patternHits(pattern, s string) bool {
	neg := false
	if len(pattern) > 0 && pattern[0] == '!' {
		neg, pattern = true, pattern[1:]
	}
	var hit bool
	switch {
	case len(pattern) >= 6 && pattern[:6] == "regex:":
		hit = scopedRegexp(pattern[6:]).FindStringIndex(s) != nil
	case len(pattern) > 0 && pattern[len(pattern)-1] == '*':
		stem := pattern[:len(pattern)-1]
		hit = len(s) >= len(stem) && s[:len(stem)] == stem
	default:
		hit = s == pattern
	}
	return hit != neg
}

func anyHits(patterns []string, s string) bool {
	for _, p := range patterns {
		if patternHits(p, s) {
			return true
		}
	}
	return false
}

func (f *scopedFilter) appliesTo(name string, tags []string) bool {
	if len(f.MatchMetrics) > 0 && !anyHits(f.MatchMetrics, name) {
		return false
	}
	if anyHits(f.ExcludeMetrics, name) {
		return false
	}
	if len(f.MatchTags) > 0 {
		ok := false
		for _, t := range tags {
			ok = ok || anyHits(f.MatchTags, t)
		}
		if !ok {
			return false
		}
	}
	return true
}

// filtered applies the rules to one datapoint: (result, kept, number of filters that applied).
func (cs *scopedCase) filtered(d ref.Datapoint) (ref.Datapoint, bool, int) {
	removed := map[string]bool{}
	applied := 0
	src := d.Source
	for i := range cs.Filters {
		f := &cs.Filters[i]
		if !f.appliesTo(d.Name, d.Tags) {
			continue
		}
		applied++
		if f.DropMetric {
			return d, false, applied
		}
		for _, t := range d.Tags {
			if anyHits(f.DropTags, t) {
				removed[t] = true
			}
		}
		if f.DropHost {
			src = ""
		}
	}
	set := map[string]bool{}
	for _, t := range d.Tags {
		if !removed[t] {
			set[t] = true
		}
	}
	for _, t := range cs.Static {
		if !removed[t] {
			set[t] = true
		}
	}
	tags := make([]string, 0, len(set))
	for t := range set {
		tags = append(tags, t)
	}
	sort.Strings(tags)
	d.Tags, d.Source = tags, src
	return d, true, applied
}

func matchListOf(p []string) gostatsd.StringMatchList {
	out := make(gostatsd.StringMatchList, 0, len(p))
	for _, s := range p {
		out = append(out, gostatsd.NewStringMatch(s))
	}
	return out
}

// scopedHandler records every outgoing map separately (the identity check is per map).
type scopedHandler struct {
	mu   sync.Mutex
	maps []map[string]*ref.Series
}

func (h *scopedHandler) EstimatedTags() int { return 0 }
func (h *scopedHandler) DispatchMetricMap(_ context.Context, mm *gostatsd.MetricMap) {
	flat := ref.FromMap(mm)
	h.mu.Lock()
	h.maps = append(h.maps, flat)
	h.mu.Unlock()
}
func (h *scopedHandler) DispatchEvent(context.Context, *gostatsd.Event) {}
func (h *scopedHandler) WaitForEvents()                                 {}

func (c *checker) tagStageScoped(cs *scopedCase) {
	r := c.r
	h := &scopedHandler{}
	var filters []statsd.Filter
	for _, f := range cs.Filters {
		filters = append(filters, statsd.Filter{MatchMetrics: matchListOf(f.MatchMetrics), ExcludeMetrics: matchListOf(f.ExcludeMetrics), MatchTags: matchListOf(f.MatchTags),
			DropTags: matchListOf(f.DropTags), DropMetric: f.DropMetric, DropHost: f.DropHost})
	}
	var static gostatsd.Tags
	if len(cs.Static) > 0 {
		static = append(gostatsd.Tags{}, cs.Static...)
	}
	th := statsd.NewTagHandler(h, static, filters)

	var all []ref.Datapoint
	for _, b := range cs.Batches {
		all = append(all, b...)
	}
	var inputs []*gostatsd.MetricMap
	switch cs.Grouping {
	case "one-map":
		inputs = append(inputs, gen.MapOf(all))
	case "map-per-batch":
		for _, b := range cs.Batches {
			inputs = append(inputs, gen.MapOf(b))
		}
	default:
		for _, d := range all {
			inputs = append(inputs, gen.MapOf([]ref.Datapoint{d}))
		}
	}
	if r.Guard("tag-stage-scoped-panic", cs, func() {
		for _, mm := range inputs {
			th.DispatchMetricMap(context.Background(), mm)
		}
	}) {
		return
	}

	// reference: the rules applied to every datapoint, then folded
	want := ref.NewFolded()
	namesApplied, namesNot := map[string]bool{}, map[string]bool{}
	for _, d := range all {
		fd, kept, applied := cs.filtered(d)
		if applied > 0 {
			namesApplied[d.Name] = true
		} else {
			namesNot[d.Name] = true
		}
		if kept {
			want.AddDatapoint(fd)
		}
	}

	// observed: every outgoing series by the (name, tags, source) it carries
	got := ref.NewFolded()
	structural := false
	for mi, flat := range h.maps {
		seen := map[string]string{}
		keys := make([]string, 0, len(flat))
		for k := range flat {
			keys = append(keys, k)
		}
		sort.Strings(keys)
		for _, k := range keys {
			s := flat[k]
			for i := 1; i < len(s.Tags); i++ {
				if s.Tags[i] == s.Tags[i-1] {
					structural = true
					r.Violation("tag-stage-scoped:duplicate-tags", fmt.Sprintf("outgoing series %q carries tags %q", k, s.Tags), cs)
				}
			}
			carried := ref.TagsKey(s.Tags, s.Source)
			id := ref.Key(s.Type, s.Name, carried)
			if other, dup := seen[id]; dup {
				structural = true
				r.Violation("tag-stage-scoped:coinciding-series-kept-apart", fmt.Sprintf("outgoing map %d holds the series %q (type|name|tags,source as carried) twice, under the map keys %q and %q", mi, id, other, s.TagsKey), cs)
			}
			seen[id] = s.TagsKey
			s2 := *s
			s2.TagsKey = carried
			got.AddSeries(&s2)
		}
	}
	_ = structural // reported above; the fold comparison below still says what the data looks like
	c.compare("tag-stage-scoped", got.Series, want, true, cs)
	if o := analyse(&family{Batches: cs.Batches}); o.nontrivi || len(want.Series) < len(ref.FromMap(gen.MapOf(all))) {
		mixed := len(namesApplied) > 0 && len(namesNot) > 0
		kinds := 0
		for _, f := range cs.Filters {
			if len(f.MatchMetrics) > 0 {
				kinds |= 1
			}
			if len(f.ExcludeMetrics) > 0 {
				kinds |= 2
			}
			if len(f.DropTags) > 0 {
				kinds |= 4
			}
			if f.DropHost {
				kinds |= 8
			}
			if f.DropMetric {
				kinds |= 16
			}
		}
		r.Nontrivial(fmt.Sprintf("tag-stage-scoped|%s|mixed=%v|k%05b|static%d|ov%04b", cs.Grouping, mixed, kinds, len(cs.Static), o.mask))
		if mixed {
			r.Event("scoped_cases_with_names_in_and_out_of_scope", 1)
		}
	}
}

var (
	scopedNamePatterns = []string{"m0", "m1", "m2", "m*", "!m0", "!m1", "regex:^m[01]$", "regex:[12]$", "m1*", "nomatch"}
	scopedTagPatterns  = []string{"env:*", "env:prod", "env:dev", "*", "!env:prod", "regex:^region", "regex:^env:(prod|dev)$", "region:us", "!regex:^env"}
	scopedGroupings    = []string{"one-map", "map-per-batch", "map-per-datapoint"}
)

func pickSome(rng *rand.Rand, pool []string, maxN int) []string {
	out := []string{}
	for i, n := 0, rng.Intn(maxN+1); i < n; i++ {
		out = append(out, pool[rng.Intn(len(pool))])
	}
	return out
}

// genScoped draws one family and one configuration and returns it once per grouping.
func genScoped(rng *rand.Rand) []*scopedCase {
	// several names share few tag sets
	o := gen.MapOpts{Names: 2 + rng.Intn(2), TagPool: 3, MaxTags: 2, Sources: 2, Exact: true, TimeBase: 1000, TimeSpread: int64(2 + rng.Intn(4))}
	var batches [][]ref.Datapoint
	for i, n := 0, 2+rng.Intn(5); i < n; i++ {
		batches = append(batches, gen.Datapoints(rng, o, 1+rng.Intn(7)))
	}
	var filters []scopedFilter
	for i, n := 0, 1+rng.Intn(3); i < n; i++ {
		f := scopedFilter{MatchMetrics: pickSome(rng, scopedNamePatterns, 2), ExcludeMetrics: pickSome(rng, scopedNamePatterns, 1), MatchTags: []string{},
			DropTags: pickSome(rng, scopedTagPatterns, 2), DropHost: rng.Intn(3) == 0, DropMetric: rng.Intn(8) == 0}
		if len(f.MatchMetrics) == 0 && len(f.ExcludeMetrics) == 0 && rng.Intn(3) != 0 {
			f.MatchMetrics = []string{scopedNamePatterns[rng.Intn(3)]} // mostly name scoped
		}
		if rng.Intn(5) == 0 {
			f.MatchTags = pickSome(rng, scopedTagPatterns, 1)
		}
		filters = append(filters, f)
	}
	static := []string{}
	switch rng.Intn(4) {
	case 0:
		static = []string{"dc:x"}
	case 1:
		static = []string{"env:prod"}
	}
	var out []*scopedCase
	for _, g := range scopedGroupings {
		out = append(out, &scopedCase{Kind: "scoped", Batches: batches, Static: static, Filters: filters, Grouping: g})
	}
	return out
}

func cloudStepsString(steps []cloudStep) string {
	var b strings.Builder
	for _, s := range steps {
		if s.Op == "batch" {
			fmt.Fprintf(&b, "b%d ", s.Batch)
		} else {
			fmt.Fprintf(&b, "a(%s) ", s.Source)
		}
	}
	return b.String()
}
