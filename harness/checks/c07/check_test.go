//go:build verif

// C07 — merging batches is independent of order and grouping.
//
// A family of 2..8 small datapoint batches over a tiny key space is aggregated by the real code along
// many different routes (permutations and bracketings of MetricMap.Merge, MergeMaps, an aggregator's
// ReceiveMap, re-grouping of the datapoints into other batches, consolidator slots filled sequentially
// and by concurrent callers, a consolidator slot held by force while Flush/Drain runs, the tag stage's
// collision merge, the cloud stage's parking merge). Every route must end in the reference fold of
// the family's datapoints. Input maps are rebuilt from the datapoints for every route, because Merge
// may alias the slices and maps of its inputs.
package c07

import (
	"context"
	"fmt"
	"math/rand"
	"sort"
	"strings"
	"sync"
	"sync/atomic"
	"testing"
	"time"

	"github.com/atlassian/gostatsd"
	"github.com/atlassian/gostatsd/pkg/statsd"
	"github.com/atlassian/gostatsd/pkg/verifhook"

	"verif/gen"
	"verif/mon"
	"verif/ref"
)

const hookName = "consolidator.slotHeld"

// family is one case: the batches as datapoint lists.
type family struct {
	Kind    string            `json:"kind"`
	Batches [][]ref.Datapoint `json:"batches"`
	Exact   bool              `json:"exact"`
	Variant string            `json:"variant,omitempty"`
	Perm    []int             `json:"perm,omitempty"`
	Spots   int               `json:"spots,omitempty"`
	Aux     []int             `json:"aux,omitempty"` // variant specific choices (tree picks, regroup assignment, ...)
}

func (f *family) fresh(i int) *gostatsd.MetricMap { return gen.MapOf(f.Batches[i]) }

func (f *family) all() []ref.Datapoint {
	var out []ref.Datapoint
	for _, b := range f.Batches {
		out = append(out, b...)
	}
	return out
}

func foldOf(dps []ref.Datapoint) *ref.Folded {
	f := ref.NewFolded()
	for _, d := range dps {
		f.AddDatapoint(d)
	}
	return f
}

type checker struct {
	r *mon.Run
	// flushBroken is set once a Flush that nothing was holding up never returned (reproduced); later
	// cases that need Flush are skipped so that a deadlocking build does not cost a watchdog per case.
	flushBroken bool
	holdBroken  bool
	cloudBroken bool // a cloud-rounds script got stuck twice: later scripts are skipped
	concStuck   int
}

// overlap describes the family for the non-trivial rule: which metric types have a key that occurs in
// at least two batches with different newest timestamps, and the largest number of batches sharing a key.
type overlap struct {
	mask     int
	maxMult  int
	pivotIn  []int // for the first such key: batch indexes holding it, newest batch first
	nontrivi bool
}

func analyse(f *family) overlap {
	type occ struct {
		batch int
		ts    int64
	}
	per := map[string][]occ{}
	typ := map[string]int{}
	for bi, b := range f.Batches {
		newest := map[string]int64{}
		for _, d := range b {
			k := ref.Key(d.Type, d.Name, ref.TagsKey(d.Tags, d.Source))
			typ[k] = d.Type
			if ts, ok := newest[k]; !ok || d.Timestamp > ts {
				newest[k] = d.Timestamp
			}
		}
		for k, ts := range newest {
			per[k] = append(per[k], occ{bi, ts})
		}
	}
	keys := make([]string, 0, len(per))
	for k := range per {
		keys = append(keys, k)
	}
	sort.Strings(keys)
	var o overlap
	for _, k := range keys {
		occs := per[k]
		if len(occs) > o.maxMult {
			o.maxMult = len(occs)
		}
		if len(occs) < 2 {
			continue
		}
		differ := false
		for _, x := range occs[1:] {
			if x.ts != occs[0].ts {
				differ = true
			}
		}
		if !differ {
			continue
		}
		o.nontrivi = true
		o.mask |= 1 << uint(typ[k]-1)
		if o.pivotIn == nil {
			sort.Slice(occs, func(i, j int) bool { return occs[i].ts > occs[j].ts })
			for _, x := range occs {
				o.pivotIn = append(o.pivotIn, x.batch)
			}
		}
	}
	if o.maxMult > 4 {
		o.maxMult = 4
	}
	return o
}

// newestPos says where, in the merge order, the batch with the newest timestamp of the pivot key comes
// relative to the other batches holding that key.
func (o overlap) newestPos(perm []int) string {
	if len(o.pivotIn) == 0 || perm == nil {
		return "na"
	}
	pos := map[int]int{}
	for i, b := range perm {
		pos[b] = i
	}
	first, last := true, true
	for _, b := range o.pivotIn[1:] {
		if pos[b] < pos[o.pivotIn[0]] {
			first = false
		} else {
			last = false
		}
	}
	switch {
	case first:
		return "newest-first"
	case last:
		return "newest-last"
	}
	return "newest-mid"
}

func diffKind(d string) string {
	switch {
	case strings.HasPrefix(d, "missing series"):
		return "series-missing"
	case strings.HasPrefix(d, "unexpected series"):
		return "series-unexpected"
	case strings.HasPrefix(d, "duplicate series"):
		return "series-duplicate"
	case strings.HasPrefix(d, "gauge "):
		return "gauge"
	}
	if i := strings.Index(d, "\": "); i >= 0 {
		w := strings.Fields(d[i+3:])
		if len(w) > 0 {
			if w[0] == "timer" {
				return "timer-values"
			}
			if w[0] == "sampled" {
				return "sampled-count"
			}
			if w[0] == "set" {
				return "set-members"
			}
			return w[0]
		}
	}
	return "other"
}

// compare checks one route's result against the reference fold.
func (c *checker) compare(variant string, got map[string]*ref.Series, want *ref.Folded, exact bool, replay interface{}) bool {
	c.r.Eval(1)
	c.r.Event("route:"+variant, 1)
	opts := ref.DiffOpts{IgnoreGauge: true}
	if !exact {
		opts.SampledRel = 1e-9
	}
	d := ref.Diff(got, want.Series, opts)
	d = append(d, want.CheckGauges(got)...)
	if len(d) == 0 {
		return true
	}
	c.r.Violation(variant+":"+diffKind(d[0]), fmt.Sprintf("route %s differs from the reference fold of the datapoints: %s", variant, strings.Join(d, " | ")), replay)
	return false
}

// ---------------------------------------------------------------------------------------------
// sequential routes

func permOf(rng *rand.Rand, n int) []int { return rng.Perm(n) }

func (c *checker) routeFold(f *family, perm []int) map[string]*ref.Series {
	acc := gostatsd.NewMetricMap(false)
	for _, i := range perm {
		acc.Merge(f.fresh(i))
	}
	return ref.FromMap(acc)
}

func (c *checker) routeFoldInto(f *family, perm []int) map[string]*ref.Series {
	acc := f.fresh(perm[0])
	for _, i := range perm[1:] {
		acc.Merge(f.fresh(i))
	}
	return ref.FromMap(acc)
}

func (c *checker) routeMergeMaps(f *family, perm []int) map[string]*ref.Series {
	mms := make([]*gostatsd.MetricMap, 0, len(perm))
	for _, i := range perm {
		mms = append(mms, f.fresh(i))
	}
	return ref.FromMap(gostatsd.MergeMaps(mms))
}

// routeTree merges along a random bracketing: aux holds pairs (into, from) of positions in the shrinking list.
func (c *checker) routeTree(f *family, perm []int, aux []int) map[string]*ref.Series {
	list := make([]*gostatsd.MetricMap, 0, len(perm))
	for _, i := range perm {
		list = append(list, f.fresh(i))
	}
	for p := 0; len(list) > 1 && p+1 < len(aux); p += 2 {
		a, b := aux[p]%len(list), aux[p+1]%len(list)
		if a == b {
			b = (a + 1) % len(list)
		}
		list[a].Merge(list[b])
		list = append(list[:b], list[b+1:]...)
	}
	for len(list) > 1 { // aux exhausted (replay of a truncated case): finish left to right
		list[0].Merge(list[1])
		list = append(list[:1], list[2:]...)
	}
	return ref.FromMap(list[0])
}

func (c *checker) routeAggregator(f *family, perm []int) map[string]*ref.Series {
	agg := statsd.NewMetricAggregator(nil, 0, 0, 0, 0, gostatsd.TimerSubtypes{}, 0)
	for _, i := range perm {
		agg.ReceiveMap(f.fresh(i))
	}
	var got map[string]*ref.Series
	agg.Process(func(mm *gostatsd.MetricMap) { got = ref.FromMap(mm) })
	return got
}

// routeRegroup distributes the family's datapoints over other batches (aux[i] = batch of datapoint i in
// the order given by perm over datapoints) and merges those.
func (c *checker) routeRegroup(f *family, order []int, aux []int) map[string]*ref.Series {
	dps := f.all()
	groups := map[int][]ref.Datapoint{}
	maxG := 0
	for n, i := range order {
		g := aux[n%len(aux)]
		groups[g] = append(groups[g], dps[i%len(dps)])
		if g > maxG {
			maxG = g
		}
	}
	var mms []*gostatsd.MetricMap
	for g := 0; g <= maxG; g++ {
		if len(groups[g]) > 0 {
			mms = append(mms, gen.MapOf(groups[g]))
		}
	}
	return ref.FromMap(gostatsd.MergeMaps(mms))
}

func metricsOf(dps []ref.Datapoint) []*gostatsd.Metric {
	out := make([]*gostatsd.Metric, len(dps))
	for i, d := range dps {
		out[i] = d.Metric()
	}
	return out
}

// routeConsolidatorSeq feeds the batches to consolidator slots one after the other, alternating between
// the map and the metric entry points, then drains and merges the slots.
func (c *checker) routeConsolidatorSeq(f *family, perm []int, spots int, cs interface{}) map[string]*ref.Series {
	mc := gostatsd.NewMetricConsolidator(spots, false, time.Hour, nil)
	for n, i := range perm {
		if (n+spots)%2 == 0 {
			mc.ReceiveMetricMap(f.fresh(i))
		} else {
			mc.ReceiveMetrics(metricsOf(f.Batches[i]))
		}
	}
	slots := mc.Drain()
	if len(slots) != spots {
		c.r.Violation("consolidator-seq:drain-size", fmt.Sprintf("Drain returned %d maps for %d slots", len(slots), spots), cs)
	}
	return ref.FromMap(gostatsd.MergeMaps(slots))
}

// routeConsolidatorFlushSeq receives the first half of the batches, flushes, receives the rest and
// flushes again; both deliveries together are the aggregate. Nobody holds a slot, so a Flush that does
// not come back is reported (after reproducing it once) instead of waiting for it forever.
func (c *checker) routeConsolidatorFlushSeq(f *family, perm []int, spots int, cs interface{}) (map[string]*ref.Series, bool) {
	attempt := func() ([]*gostatsd.MetricMap, bool) {
		sink := make(chan []*gostatsd.MetricMap, 2)
		mc := gostatsd.NewMetricConsolidator(spots, false, time.Hour, sink)
		done := make(chan struct{})
		go func() {
			defer close(done)
			for n, i := range perm {
				if n == (len(perm)+1)/2 {
					mc.Flush()
				}
				if (n+spots)%2 == 1 {
					mc.ReceiveMetricMap(f.fresh(i))
				} else {
					mc.ReceiveMetrics(metricsOf(f.Batches[i]))
				}
			}
			mc.Flush()
		}()
		select {
		case <-done:
		case <-time.After(15 * time.Second):
			return nil, false
		}
		var all []*gostatsd.MetricMap
		for i := 0; i < 2; i++ {
			b := <-sink
			if len(b) != spots {
				c.r.Violation("consolidator-flush-seq:drain-size", fmt.Sprintf("Flush delivered %d maps for %d slots", len(b), spots), cs)
			}
			all = append(all, b...)
		}
		return all, true
	}
	all, ok := attempt()
	if !ok {
		c.r.Event("flush_stuck_retry", 1)
		if all, ok = attempt(); !ok {
			c.flushBroken = true
			c.r.Violation("consolidator-flush-seq:never-returns", fmt.Sprintf("a single goroutine calling ReceiveMetricMap/ReceiveMetrics and Flush on a consolidator with %d slots was still blocked after 15 s (twice); the batches never reach the sink", spots), cs)
			return nil, false
		}
		c.r.Inconclusive("flush-seq-stuck-once")
	}
	return ref.FromMap(gostatsd.MergeMaps(all)), true
}

// captureHandler is the stage after the tag / cloud handler.
type captureHandler struct {
	mu   sync.Mutex
	maps []map[string]*ref.Series
	n    atomic.Int64
}

func (h *captureHandler) EstimatedTags() int { return 0 }
func (h *captureHandler) DispatchMetricMap(_ context.Context, mm *gostatsd.MetricMap) {
	flat := ref.FromMap(mm)
	h.mu.Lock()
	h.maps = append(h.maps, flat)
	h.mu.Unlock()
	h.n.Add(1)
}
func (h *captureHandler) DispatchEvent(context.Context, *gostatsd.Event) {}
func (h *captureHandler) WaitForEvents()                                 {}

func (h *captureHandler) folded() map[string]*ref.Series {
	h.mu.Lock()
	defer h.mu.Unlock()
	f := ref.NewFolded()
	for _, m := range h.maps {
		f.AddMap(m)
	}
	return f.Series
}

// routeTagStage strips every tag in the tag stage, so that series of one name and source coincide and
// are combined by the stage's own collision merge (map iteration order decides the merge order).
func (c *checker) routeTagStage(f *family) (got map[string]*ref.Series, want *ref.Folded) {
	h := &captureHandler{}
	th := statsd.NewTagHandler(h, nil, []statsd.Filter{{DropTags: gostatsd.StringMatchList{gostatsd.NewStringMatch("*")}}})
	dps := f.all()
	th.DispatchMetricMap(context.Background(), gen.MapOf(dps))
	stripped := make([]ref.Datapoint, len(dps))
	for i, d := range dps {
		d.Tags = nil
		stripped[i] = d
	}
	// The input of the stage is already aggregated per (name, tags, source); gauges of different tag
	// sets that coincide afterwards are judged by the newest-timestamp rule over all datapoints.
	return h.folded(), foldOf(stripped)
}

// fakeCache is a CachedInstances that never has an answer ready: everything with a source is parked.
type fakeCache struct {
	sink chan gostatsd.Source
	info chan gostatsd.InstanceInfo
}

func (fc *fakeCache) Peek(gostatsd.Source) (*gostatsd.Instance, bool) { return nil, false }
func (fc *fakeCache) IpSink() chan<- gostatsd.Source                    { return fc.sink }
func (fc *fakeCache) InfoSource() <-chan gostatsd.InstanceInfo          { return fc.info }
func (fc *fakeCache) EstimatedTags() int                                { return 0 }

// routeCloud sends the batches through a real CloudHandler whose lookups stay unanswered until every
// batch has been parked (and merged per source), then answers all of them negatively.
func (c *checker) routeCloud(f *family, perm []int) (map[string]*ref.Series, bool) {
	h := &captureHandler{}
	fc := &fakeCache{sink: make(chan gostatsd.Source, 64), info: make(chan gostatsd.InstanceInfo)}
	ch := statsd.NewCloudHandler(fc, h)
	ctx, cancel := context.WithCancel(context.Background())
	defer cancel()
	done := make(chan struct{})
	go func() { defer close(done); ch.Run(ctx) }()

	sources := map[string]bool{}
	immediate := 0
	for _, i := range perm {
		hasEmpty := false
		for _, d := range f.Batches[i] {
			if d.Source != "" {
				sources[d.Source] = true
			} else {
				hasEmpty = true
			}
		}
		if hasEmpty {
			immediate++
		}
		// returns after Run has taken the parked part (unbuffered channel) or at once if nothing is parked
		ch.DispatchMetricMap(ctx, f.fresh(i))
	}
	srcs := make([]string, 0, len(sources))
	for s := range sources {
		srcs = append(srcs, s)
	}
	sort.Strings(srcs)
	for _, s := range srcs {
		select {
		case fc.info <- gostatsd.InstanceInfo{IP: gostatsd.Source(s), Instance: nil}:
		case <-time.After(30 * time.Second):
			return nil, false
		}
	}
	want := int64(immediate + len(srcs))
	if !mon.WaitUntil(30*time.Second, func() bool { return h.n.Load() >= want }) {
		return nil, false
	}
	cancel()
	<-done
	return h.folded(), true
}

// ---------------------------------------------------------------------------------------------
// concurrent consolidator routes

type concCase struct {
	Kind       string            `json:"kind"` // "conc"
	Batches    [][]ref.Datapoint `json:"batches"`
	Spots      int               `json:"spots"`
	Goroutines int               `json:"goroutines"`
	Flushes    int               `json:"flushes"`
}

func (c *checker) runConcurrent(cs concCase) {
	r := c.r
	if c.flushBroken {
		cs.Flushes = 0
	}
	sink := make(chan []*gostatsd.MetricMap, cs.Flushes+1)
	mc := gostatsd.NewMetricConsolidator(cs.Spots, false, time.Hour, sink)
	start := make(chan struct{})
	var wg sync.WaitGroup
	for g := 0; g < cs.Goroutines; g++ {
		// inputs are built before the start so that the goroutines only call the code under test
		type op struct {
			mm *gostatsd.MetricMap
			ms []*gostatsd.Metric
		}
		var ops []op
		for i := g; i < len(cs.Batches); i += cs.Goroutines {
			if (i/cs.Goroutines+g)%2 == 0 {
				ops = append(ops, op{mm: gen.MapOf(cs.Batches[i])})
			} else {
				ops = append(ops, op{ms: metricsOf(cs.Batches[i])})
			}
		}
		wg.Add(1)
		go func() {
			defer wg.Done()
			<-start
			for _, o := range ops {
				if o.mm != nil {
					mc.ReceiveMetricMap(o.mm)
				} else {
					mc.ReceiveMetrics(o.ms)
				}
			}
		}()
	}
	flusherDone := make(chan struct{})
	go func() {
		defer close(flusherDone)
		<-start
		for i := 0; i < cs.Flushes; i++ {
			mc.Flush()
		}
	}()
	close(start)
	joined := make(chan struct{})
	go func() { wg.Wait(); <-flusherDone; close(joined) }()
	select {
	case <-joined:
	case <-time.After(20 * time.Second):
		r.Inconclusive("concurrent-consolidator-watchdog")
		c.concStuck++
		return
	}
	var all []*gostatsd.MetricMap
	drains := 0
	for i := 0; i < cs.Flushes; i++ {
		b := <-sink
		drains++
		if len(b) != cs.Spots {
			r.Violation("consolidator-conc:drain-size", fmt.Sprintf("a flush delivered %d maps for %d slots", len(b), cs.Spots), cs)
		}
		all = append(all, b...)
	}
	last := mc.Drain()
	if len(last) != cs.Spots {
		r.Violation("consolidator-conc:drain-size", fmt.Sprintf("Drain returned %d maps for %d slots", len(last), cs.Spots), cs)
	}
	all = append(all, last...)
	var dps []ref.Datapoint
	for _, b := range cs.Batches {
		dps = append(dps, b...)
	}
	got := ref.FromMap(gostatsd.MergeMaps(all))
	c.compare("consolidator-conc", got, foldOf(dps), true, cs)
	fam := &family{Batches: cs.Batches}
	o := analyse(fam)
	if o.nontrivi {
		r.Nontrivial(fmt.Sprintf("conc|s%d|g%d|f%v|ov%04b|m%d", cs.Spots, cs.Goroutines, cs.Flushes > 0, o.mask, o.maxMult))
	}
	r.Event("consolidator_drains", drains+1)
}

// ---------------------------------------------------------------------------------------------
// forced interleaving: a slot is held while Flush / Drain runs

type holdCase struct {
	Kind     string            `json:"kind"` // "hold"
	Preload  [][]ref.Datapoint `json:"preload"`
	Held     []ref.Datapoint   `json:"held"` // names prefixed "held." so that they can be told apart
	Others   [][]ref.Datapoint `json:"others"`
	Spots    int               `json:"spots"`
	UseFlush bool              `json:"use_flush"`
}

const stuck = "stuck"

// runHold returns "" when the scenario ran to the end, stuck when a goroutine never came back.
func (c *checker) runHold(cs holdCase, exposure time.Duration) string {
	r := c.r
	sink := make(chan []*gostatsd.MetricMap, 4)
	mc := gostatsd.NewMetricConsolidator(cs.Spots, false, time.Hour, sink)
	for i, b := range cs.Preload {
		if i%2 == 0 {
			mc.ReceiveMetricMap(gen.MapOf(b))
		} else {
			mc.ReceiveMetrics(metricsOf(b))
		}
	}
	entered := make(chan struct{})
	release := make(chan struct{})
	var once atomic.Bool
	verifhook.Set(hookName, func(string) {
		if once.CompareAndSwap(false, true) {
			close(entered)
			<-release
		}
	})
	defer verifhook.Clear(hookName)

	heldMap := gen.MapOf(cs.Held)
	aDone := make(chan struct{})
	go func() { defer close(aDone); mc.ReceiveMetricMap(heldMap) }()
	select {
	case <-entered:
	case <-time.After(30 * time.Second):
		close(release)
		r.Inconclusive("hook-not-reached")
		return ""
	}
	r.Event("slot_held", 1)

	// other callers arriving while the slot is held: they take another slot, or queue up behind the holder
	var owg sync.WaitGroup
	for i, b := range cs.Others {
		var mm *gostatsd.MetricMap
		var ms []*gostatsd.Metric
		if i%2 == 0 {
			mm = gen.MapOf(b)
		} else {
			ms = metricsOf(b)
		}
		owg.Add(1)
		go func() {
			defer owg.Done()
			if mm != nil {
				mc.ReceiveMetricMap(mm)
			} else {
				mc.ReceiveMetrics(ms)
			}
		}()
	}

	bDone := make(chan struct{})
	var first []*gostatsd.MetricMap
	go func() {
		defer close(bDone)
		if cs.UseFlush {
			mc.Flush()
			first = <-sink
		} else {
			first = mc.Drain()
			mc.Fill()
		}
	}()
	// Exposure window, not synchronisation: with the real code B cannot finish while the slot is held,
	// however long we wait; the window only gives a wrong implementation the time to show itself.
	returnedEarly := mon.WaitUntil(exposure, func() bool {
		select {
		case <-bDone:
			return true
		default:
			return false
		}
	})
	close(release)
	kind := "drain"
	if cs.UseFlush {
		kind = "flush"
	}
	if returnedEarly {
		r.Violation("consolidator-hold:"+kind+"-returned-while-slot-held", fmt.Sprintf("%s returned although one of the %d slots was still held by a ReceiveMetricMap caller", kind, cs.Spots), cs)
	}
	select {
	case <-bDone:
	case <-time.After(20 * time.Second):
		return stuck
	}
	if len(first) != cs.Spots {
		r.Violation("consolidator-hold:drain-size", fmt.Sprintf("%s delivered %d maps for %d slots", kind, len(first), cs.Spots), cs)
	}
	// (1) the data of the held slot is part of the drain that overlapped the hold
	firstFlat := ref.FromMap(gostatsd.MergeMaps(first))
	heldGot := map[string]*ref.Series{}
	for k, s := range firstFlat {
		if strings.HasPrefix(s.Name, "held.") {
			heldGot[k] = s
		}
	}
	wantHeld := foldOf(cs.Held)
	opts := ref.DiffOpts{IgnoreGauge: true}
	if d := append(ref.Diff(heldGot, wantHeld.Series, opts), wantHeld.CheckGauges(heldGot)...); len(d) > 0 {
		r.Violation("consolidator-hold:held-data-not-in-overlapping-"+kind+":"+diffKind(d[0]), fmt.Sprintf("the batch merged into the held slot must be in the %s that waited for it: %s", kind, strings.Join(d, " | ")), cs)
	}
	allBack := make(chan struct{})
	go func() { <-aDone; owg.Wait(); close(allBack) }()
	select {
	case <-allBack:
	case <-time.After(20 * time.Second):
		return stuck
	}
	r.Eval(1)
	// (2) nothing is lost or doubled over both drains
	rest := mc.Drain()
	all := append(append([]*gostatsd.MetricMap{}, first...), rest...)
	var dps []ref.Datapoint
	for _, b := range cs.Preload {
		dps = append(dps, b...)
	}
	dps = append(dps, cs.Held...)
	for _, b := range cs.Others {
		dps = append(dps, b...)
	}
	c.compare("consolidator-hold", ref.FromMap(gostatsd.MergeMaps(all)), foldOf(dps), true, cs)
	r.Nontrivial(fmt.Sprintf("hold|s%d|%s|o%d|p%d", cs.Spots, kind, len(cs.Others), min(len(cs.Preload), 2)))
	return ""
}

func (c *checker) hold(cs holdCase, exposure time.Duration) {
	if (cs.UseFlush && c.flushBroken) || c.holdBroken {
		c.r.Event("hold_skipped_after_stuck", 1)
		return
	}
	if c.runHold(cs, exposure) != stuck {
		return
	}
	// Progress is part of what is observed here: the script is deterministic and every holder has been
	// released, so a Flush/Drain/Receive that never returns means the data never arrives. Once more:
	c.r.Event("hold_stuck_retry", 1)
	if c.runHold(cs, exposure) == stuck {
		c.flushBroken = c.flushBroken || cs.UseFlush
		c.holdBroken = c.holdBroken || !cs.UseFlush
		c.r.Violation("consolidator-hold:never-returns-after-release", fmt.Sprintf("with %d slots, a slot held during Flush/Drain and then released: a ReceiveMetricMap/Flush/Drain caller was still blocked 20 s later (twice)", cs.Spots), cs)
	} else {
		c.r.Inconclusive("hold-scenario-stuck-once")
	}
}

func min(a, b int) int {
	if a < b {
		return a
	}
	return b
}

// ---------------------------------------------------------------------------------------------
// lagging consumer: what a drain handed out must stay what it was until the consumer gets to it

// lagCase: K rounds of (several receives, then one drain); the consumer looks at the drained slices late.
//
//	mode "sink"       K Flushes into a sink of capacity K; only then the consumer takes the K slices
//	mode "drainfill"  Drain()/DrainWithContext() + Fill() called directly, results kept until the end
//	mode "gated"      a consumer goroutine takes every slice off the sink at once (as the forwarder's Run
//	                  does) but merges slice i only after flush i+Lag has completed
//	mode "concurrent" as gated, but the merge of slice i runs while the producer already performs the next
//	                  round and flush (the race detector sees a reused result buffer)
type lagCase struct {
	Kind      string              `json:"kind"` // "lag"
	Mode      string              `json:"mode"`
	Rounds    [][][]ref.Datapoint `json:"rounds"` // round -> batches -> datapoints
	Spots     int                 `json:"spots"`
	Lag       int                 `json:"lag"`
	Producers int                 `json:"producers"`
}

type consumedSlice struct {
	n    int
	flat map[string]*ref.Series
}

func (c *checker) runLag(cs lagCase) {
	r := c.r
	K := len(cs.Rounds)
	usesFlush := cs.Mode != "drainfill"
	if usesFlush && c.flushBroken {
		r.Event("lag_skipped_flush_broken", 1)
		return
	}
	sink := make(chan []*gostatsd.MetricMap, K+1)
	mc := gostatsd.NewMetricConsolidator(cs.Spots, false, time.Hour, sink)

	receiveRound := func(k int) {
		type op struct {
			mm *gostatsd.MetricMap
			ms []*gostatsd.Metric
		}
		ops := make([]op, len(cs.Rounds[k]))
		for i, b := range cs.Rounds[k] {
			if (i+k)%2 == 0 {
				ops[i] = op{mm: gen.MapOf(b)}
			} else {
				ops[i] = op{ms: metricsOf(b)}
			}
		}
		do := func(o op) {
			if o.mm != nil {
				mc.ReceiveMetricMap(o.mm)
			} else {
				mc.ReceiveMetrics(o.ms)
			}
		}
		if cs.Producers <= 1 {
			for _, o := range ops {
				do(o)
			}
			return
		}
		var wg sync.WaitGroup
		for g := 0; g < cs.Producers; g++ {
			wg.Add(1)
			go func(g int) {
				defer wg.Done()
				for i := g; i < len(ops); i += cs.Producers {
					do(ops[i])
				}
			}(g)
		}
		wg.Wait()
	}

	// the consumer's work on one drained slice, done when the slice is finally looked at
	acc := gostatsd.NewMetricMap(false)
	var results []consumedSlice
	consume := func(slice []*gostatsd.MetricMap) {
		merged := gostatsd.MergeMaps(slice)
		results = append(results, consumedSlice{n: len(slice), flat: ref.FromMap(merged)})
		if merged != nil {
			acc.Merge(merged)
		}
	}

	switch cs.Mode {
	case "sink":
		for k := 0; k < K; k++ {
			receiveRound(k)
			mc.Flush()
		}
		for k := 0; k < K; k++ {
			consume(<-sink)
		}
	case "drainfill":
		held := make([][]*gostatsd.MetricMap, 0, K)
		for k := 0; k < K; k++ {
			receiveRound(k)
			if k%2 == 0 {
				held = append(held, mc.Drain())
			} else {
				held = append(held, mc.DrainWithContext(context.Background()))
			}
			mc.Fill()
		}
		for _, sl := range held {
			consume(sl)
		}
	default: // gated, concurrent
		const (
			take  = 1
			merge = 2
		)
		cmds := make(chan int)
		acks := make(chan struct{})
		done := make(chan struct{})
		go func() {
			defer close(done)
			var pending [][]*gostatsd.MetricMap
			for cmd := range cmds {
				switch cmd {
				case take:
					pending = append(pending, <-sink)
					acks <- struct{}{}
				case merge:
					sl := pending[0]
					pending = pending[1:]
					if cs.Mode == "gated" {
						consume(sl)
						acks <- struct{}{}
					} else {
						acks <- struct{}{} // the producer goes on while this slice is being merged
						consume(sl)
					}
				}
			}
		}()
		merged := 0
		for k := 0; k < K; k++ {
			receiveRound(k)
			mc.Flush()
			cmds <- take
			<-acks
			if k >= cs.Lag {
				cmds <- merge
				<-acks
				merged++
			}
		}
		for ; merged < K; merged++ {
			cmds <- merge
			<-acks
		}
		close(cmds)
		select {
		case <-done:
		case <-time.After(30 * time.Second):
			r.Inconclusive("lag-consumer-watchdog")
			return
		}
	}

	variant := "consolidator-lag-" + cs.Mode
	if len(results) != K {
		r.Violation(variant+":slice-count", fmt.Sprintf("%d rounds, %d slices consumed", K, len(results)), cs)
		return
	}
	var all []ref.Datapoint
	for k, res := range results {
		var dps []ref.Datapoint
		for _, b := range cs.Rounds[k] {
			dps = append(dps, b...)
		}
		all = append(all, dps...)
		if res.n != cs.Spots {
			r.Violation(variant+":drain-size", fmt.Sprintf("the slice of round %d has %d maps for %d slots when consumed", k, res.n, cs.Spots), cs)
		}
		want := foldOf(dps)
		r.Event("lagged_slices_inspected", 1)
		if d := append(ref.Diff(res.flat, want.Series, ref.DiffOpts{IgnoreGauge: true}), want.CheckGauges(res.flat)...); len(d) > 0 {
			r.Violation(variant+":drained-slice-changed-before-consumption", fmt.Sprintf("the slice drained in round %d of %d (lag %d), inspected when the consumer finally merged it, no longer holds exactly the datapoints received in that round: %s", k, K, cs.Lag, strings.Join(d, " | ")), cs)
		}
	}
	c.compare(variant, ref.FromMap(acc), foldOf(all), true, cs)
	var batches [][]ref.Datapoint
	for _, rd := range cs.Rounds {
		batches = append(batches, rd...)
	}
	if o := analyse(&family{Batches: batches}); o.nontrivi {
		r.Nontrivial(fmt.Sprintf("lag|%s|k%d|l%d|s%d|p%d|ov%04b", cs.Mode, K, cs.Lag, cs.Spots, cs.Producers, o.mask))
	}
}

func genLag(rng *rand.Rand) lagCase {
	cs := lagCase{Kind: "lag", Mode: []string{"sink", "drainfill", "gated", "concurrent"}[rng.Intn(4)], Spots: 1 + rng.Intn(4), Producers: 1 + rng.Intn(2)}
	K := 3 + rng.Intn(4)
	if cs.Mode == "gated" || cs.Mode == "concurrent" {
		cs.Lag = 1 + rng.Intn(3)
	} else {
		cs.Lag = K
	}
	o := exactOpts(rng)
	o.IDBase = 1 << 20 // timer values and set members are unique ids: no two rounds look alike
	for k := 0; k < K; k++ {
		var round [][]ref.Datapoint
		for i, n := 0, 1+rng.Intn(4); i < n; i++ {
			round = append(round, gen.Datapoints(rng, o, 1+rng.Intn(4)))
		}
		// every round is recognisable even when it drew no timer or set
		round[0] = append(round[0], ref.Datapoint{Type: gen.Counter, Name: "round.marker", Tags: []string{fmt.Sprintf("round:%d", k)}, Value: float64(k + 1), Rate: 1, Timestamp: 1000})
		cs.Rounds = append(cs.Rounds, round)
	}
	return cs
}

// ---------------------------------------------------------------------------------------------
// generators

func genFamily(rng *rand.Rand) *family {
	f := &family{Kind: "family", Exact: rng.Intn(4) != 0}
	o := gen.MapOpts{Names: 2, TagPool: 2, MaxTags: 2, Sources: 2, Exact: f.Exact, TimeBase: 1000, TimeSpread: int64(2 + rng.Intn(5))}
	if rng.Intn(3) == 0 {
		o.Names, o.TagPool = 1, 1
	}
	if rng.Intn(5) == 0 {
		o.Types = [][]int{{gen.Gauge}, {gen.Timer}, {gen.Set, gen.Counter}, {gen.Gauge, gen.Timer}}[rng.Intn(4)]
	}
	nb := 2 + rng.Intn(7)
	for i := 0; i < nb; i++ {
		f.Batches = append(f.Batches, gen.Datapoints(rng, o, 1+rng.Intn(6)))
	}
	return f
}

func (c *checker) runFamily(f *family, rng *rand.Rand) {
	r := c.r
	want := foldOf(f.all())
	o := analyse(f)
	n := len(f.Batches)
	note := func(variant string, perm []int) {
		if o.nontrivi {
			r.Nontrivial(fmt.Sprintf("%s|n%d|ov%04b|m%d|%s", variant, n, o.mask, o.maxMult, o.newestPos(perm)))
		}
	}
	cs := func(variant string, perm []int, spots int, aux []int) family {
		return family{Kind: "family", Batches: f.Batches, Exact: f.Exact, Variant: variant, Perm: perm, Spots: spots, Aux: aux}
	}

	p := permOf(rng, n)
	c.compare("merge-fold", c.routeFold(f, p), want, f.Exact, cs("merge-fold", p, 0, nil))
	note("merge-fold", p)

	p = permOf(rng, n)
	c.compare("merge-into-first", c.routeFoldInto(f, p), want, f.Exact, cs("merge-into-first", p, 0, nil))
	note("merge-into-first", p)

	p = permOf(rng, n)
	c.compare("mergemaps", c.routeMergeMaps(f, p), want, f.Exact, cs("mergemaps", p, 0, nil))
	note("mergemaps", p)

	p = permOf(rng, n)
	aux := make([]int, 2*(n-1))
	for i := range aux {
		aux[i] = rng.Intn(64)
	}
	c.compare("merge-tree", c.routeTree(f, p, aux), want, f.Exact, cs("merge-tree", p, 0, aux))
	note("merge-tree", nil)

	p = permOf(rng, n)
	c.compare("aggregator", c.routeAggregator(f, p), want, f.Exact, cs("aggregator", p, 0, nil))
	note("aggregator", p)

	total := len(f.all())
	order := permOf(rng, total)
	groups := 1 + rng.Intn(6)
	aux = make([]int, total)
	for i := range aux {
		aux[i] = rng.Intn(groups)
	}
	c.compare("regroup", c.routeRegroup(f, order, aux), want, f.Exact, cs("regroup", order, 0, aux))
	note(fmt.Sprintf("regroup-g%d", groups), nil)

	if rng.Intn(2) == 0 {
		p = permOf(rng, n)
		spots := 1 + rng.Intn(4)
		k := cs("consolidator-seq", p, spots, nil)
		c.compare("consolidator-seq", c.routeConsolidatorSeq(f, p, spots, k), want, f.Exact, k)
		note(fmt.Sprintf("consolidator-seq-s%d", spots), p)
	}
	if rng.Intn(4) == 0 && !c.flushBroken {
		p = permOf(rng, n)
		spots := 1 + rng.Intn(4)
		k := cs("consolidator-flush-seq", p, spots, nil)
		r.Case("consolidator-flush-seq n=%d spots=%d", n, spots)
		if got, ok := c.routeConsolidatorFlushSeq(f, p, spots, k); ok {
			c.compare("consolidator-flush-seq", got, want, f.Exact, k)
			note(fmt.Sprintf("consolidator-flush-seq-s%d", spots), p)
		}
	}
	if rng.Intn(4) == 0 {
		got, w := c.routeTagStage(f)
		c.compare("tag-stage-collision", got, w, f.Exact, cs("tag-stage-collision", nil, 0, nil))
		note("tag-stage-collision", nil)
	}
	if rng.Intn(8) == 0 {
		p = permOf(rng, n)
		k := cs("cloud-parking", p, 0, nil)
		r.Case("cloud-parking n=%d perm=%v", n, p)
		if got, ok := c.routeCloud(f, p); ok {
			c.compare("cloud-parking", got, want, f.Exact, k)
			note("cloud-parking", p)
		} else {
			r.Inconclusive("cloud-route-watchdog")
		}
	}
	if o.nontrivi && r.WantSample() && n <= 3 && total <= 6 {
		r.Sample(map[string]interface{}{"kind": "family", "batches": f.Batches, "reference": want.Series, "gauge_allowed": want.GaugeAllowed})
	}
}

func exactOpts(rng *rand.Rand) gen.MapOpts {
	return gen.MapOpts{Names: 2, TagPool: 2, MaxTags: 1, Sources: 2, Exact: true, TimeBase: 1000, TimeSpread: int64(2 + rng.Intn(4))}
}

func genConc(rng *rand.Rand) concCase {
	cs := concCase{Kind: "conc", Spots: 1 + rng.Intn(4), Goroutines: 2 + rng.Intn(3), Flushes: rng.Intn(3)}
	o := exactOpts(rng)
	nb := 4 + rng.Intn(12)
	for i := 0; i < nb; i++ {
		cs.Batches = append(cs.Batches, gen.Datapoints(rng, o, 1+rng.Intn(5)))
	}
	return cs
}

func genHold(rng *rand.Rand) holdCase {
	cs := holdCase{Kind: "hold", Spots: 1 + rng.Intn(4), UseFlush: rng.Intn(2) == 0}
	o := exactOpts(rng)
	for i, n := 0, rng.Intn(4); i < n; i++ {
		cs.Preload = append(cs.Preload, gen.Datapoints(rng, o, 1+rng.Intn(4)))
	}
	cs.Held = gen.Datapoints(rng, o, 1+rng.Intn(5))
	for i := range cs.Held {
		cs.Held[i].Name = "held." + cs.Held[i].Name
	}
	for i, n := 0, rng.Intn(3); i < n; i++ {
		cs.Others = append(cs.Others, gen.Datapoints(rng, o, 1+rng.Intn(4)))
	}
	return cs
}

// ---------------------------------------------------------------------------------------------

func TestCheck(t *testing.T) {
	r := mon.Start(t, "C07")
	defer r.Finish()
	r.Rule("cases: a family of 2..8 batches of 1..6 datapoints over a tiny key space (1-2 names, 1-2 tags, 2 sources, 4 types, timestamps within 2..6 ticks; three quarters with small integer values and dyadic rates for exact sums, the rest arbitrary floats with 1e-9 tolerance on sampled counts) is aggregated by the real code along: Merge into an empty map in a random permutation, Merge into the first batch, MergeMaps, a random bracketing (tree) of pairwise merges, MetricAggregator.ReceiveMap, re-grouping of the datapoints into 1..6 other batches, consolidator slots filled sequentially via ReceiveMetricMap/ReceiveMetrics then Drain+MergeMaps, the same with two Flushes to a sink, the tag stage's collision merge (all tags dropped), the cloud stage's parking merge; plus consolidators fed by 2..4 concurrent callers with 0..2 concurrent Flushes (race detector on), a forced interleaving where one caller's slot is held at the hook point while Flush/Drain runs, and lagging consumers: 3..6 rounds of (1..4 receives by 1..2 producers, then Flush into a buffered sink, or Drain/DrainWithContext+Fill directly) whose drained slices are only merged after all rounds, or by a consumer goroutine that takes each slice off the sink at once but merges it 1..3 flushes later (gated, or overlapping the producer's next round) - every slice, inspected when it is finally consumed, must hold exactly its own round (unique timer/set ids and a round marker), and the total must be the reference fold. Two stage routes regroup one family several ways: cloud-rounds plays the same 2..7 batches over 1..2 hosts through the real CloudHandler.Run behind a cache that never has an answer ready, in three groupings (all batches parked before any answer; every batch answered before the next, so a host is parked again after its lookup completed; answers interleaved at random), with answers that find an instance (tags and source rewritten) or nothing, waiting for the lookup request on IpSink before each answer and for the expected number of maps downstream after it; tag-stage-scoped sends the same 2..6 batches (2..3 names sharing 3 tags) through a TagHandler with 1..3 mostly name-scoped filters (match-metrics / exclude-metrics on some names, drop-tags, drop-host, drop-metric, optional static tag) as one map, one map per batch and one map per datapoint, and compares every outgoing series by the (name, tags, source) it carries with the fold of the datapoints after the documented filter rules. Input maps are rebuilt from the datapoints for every route. Each route is compared with the reference fold of the datapoints (counters add, timer multiset and sampled count, set union, gauge among the values carried at the newest timestamp, newest timestamp). Non-trivial: at least one key occurs in two or more batches with different newest timestamps; distinct by (route, number of batches, types of such keys, largest number of batches sharing a key, position of the newest batch in the merge order).")
	r.Assume("ref.Folded / ref.FromMap (harness) are the independent reference; MetricMap.Receive builds the input batches")
	c := &checker{r: r}

	if p := r.ReplayPayload(); p != nil {
		replay(t, c, p)
		return
	}
	exposure := 2 * time.Millisecond

	rng := r.Rand("c07")
	nFam := r.N(8000, 1500000)
	for i := 0; i < nFam; i++ {
		f := genFamily(rng)
		if i%32 == 0 {
			r.Case("family %d: %d batches", i, len(f.Batches))
		}
		c.runFamily(f, rng)
	}
	nHold := r.N(400, 100000)
	for i := 0; i < nHold; i++ {
		cs := genHold(rng)
		r.Case("hold spots=%d flush=%v preload=%d others=%d", cs.Spots, cs.UseFlush, len(cs.Preload), len(cs.Others))
		c.hold(cs, exposure)
	}
	nCloud := r.N(320, 40000)
	for i := 0; i < nCloud; i++ {
		for _, cs := range genCloud(rng) {
			r.Case("cloud-rounds %s: %s", cs.Grouping, cloudStepsString(cs.Steps))
			c.cloudRounds(cs)
		}
	}
	nScoped := r.N(1600, 250000)
	for i := 0; i < nScoped; i++ {
		for _, cs := range genScoped(rng) {
			if i%32 == 0 {
				r.Case("tag-stage-scoped %s filters=%+v static=%q", cs.Grouping, cs.Filters, cs.Static)
			}
			c.tagStageScoped(cs)
		}
	}
	nLag := r.N(2400, 400000)
	for i := 0; i < nLag; i++ {
		cs := genLag(rng)
		r.Case("lag mode=%s rounds=%d lag=%d spots=%d producers=%d", cs.Mode, len(cs.Rounds), cs.Lag, cs.Spots, cs.Producers)
		c.runLag(cs)
	}
	nConc := r.N(800, 300000)
	for i := 0; i < nConc && c.concStuck < 2; i++ {
		cs := genConc(rng)
		r.Case("conc spots=%d goroutines=%d flushes=%d batches=%d", cs.Spots, cs.Goroutines, cs.Flushes, len(cs.Batches))
		c.runConcurrent(cs)
	}
}

func replay(t *testing.T, c *checker, p []byte) {
	var probe struct {
		Kind string `json:"kind"`
	}
	if mon.ReplayCase(p, &probe) == nil {
		t.Skip("no case in replay file")
	}
	switch probe.Kind {
	case "family":
		var f family
		mon.ReplayCase(p, &f)
		want := foldOf(f.all())
		perm := f.Perm
		if len(perm) == 0 {
			perm = rand.New(rand.NewSource(1)).Perm(len(f.Batches))
		}
		// map iteration order is part of some routes: repeat
		for i := 0; i < 50; i++ {
			switch f.Variant {
			case "merge-fold":
				c.compare(f.Variant, c.routeFold(&f, perm), want, f.Exact, f)
			case "merge-into-first":
				c.compare(f.Variant, c.routeFoldInto(&f, perm), want, f.Exact, f)
			case "mergemaps":
				c.compare(f.Variant, c.routeMergeMaps(&f, perm), want, f.Exact, f)
			case "merge-tree":
				c.compare(f.Variant, c.routeTree(&f, perm, f.Aux), want, f.Exact, f)
			case "aggregator":
				c.compare(f.Variant, c.routeAggregator(&f, perm), want, f.Exact, f)
			case "regroup":
				c.compare(f.Variant, c.routeRegroup(&f, f.Perm, f.Aux), want, f.Exact, f)
			case "consolidator-seq":
				c.compare(f.Variant, c.routeConsolidatorSeq(&f, perm, f.Spots, f), want, f.Exact, f)
			case "consolidator-flush-seq":
				if got, ok := c.routeConsolidatorFlushSeq(&f, perm, f.Spots, f); ok {
					c.compare(f.Variant, got, want, f.Exact, f)
				}
			case "tag-stage-collision":
				got, w := c.routeTagStage(&f)
				c.compare(f.Variant, got, w, f.Exact, f)
			case "cloud-parking":
				if got, ok := c.routeCloud(&f, perm); ok {
					c.compare(f.Variant, got, want, f.Exact, f)
				}
			}
		}
	case "conc":
		var cs concCase
		mon.ReplayCase(p, &cs)
		for i := 0; i < 200; i++ {
			c.runConcurrent(cs)
		}
	case "cloud":
		var cs cloudCase
		mon.ReplayCase(p, &cs)
		for i := 0; i < 10; i++ {
			c.cloudBroken = false
			c.cloudRounds(&cs)
		}
	case "scoped":
		var cs scopedCase
		mon.ReplayCase(p, &cs)
		for i := 0; i < 100; i++ { // map iteration order decides
			c.tagStageScoped(&cs)
		}
	case "lag":
		var cs lagCase
		mon.ReplayCase(p, &cs)
		for i := 0; i < 50; i++ {
			c.runLag(cs)
		}
	case "hold":
		var cs holdCase
		mon.ReplayCase(p, &cs)
		for i := 0; i < 20; i++ {
			c.hold(cs, 5*time.Millisecond)
		}
	default:
		t.Skip("unknown case kind")
	}
	c.r.Nontrivial("replay-a")
	c.r.Nontrivial("replay-b")
}
