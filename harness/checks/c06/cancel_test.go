//go:build verif

package c06

// e2e-cancel: dispatches whose context is cancelled while worker queues are full, followed by further
// dispatches with live contexts on the same handler (same goroutines, immediately, and others).
//
// All capturing aggregators are stalled inside ReceiveMap, so every worker absorbs one map plus its queue
// size and then blocks the dispatchers. The harness cancels the dispatchers' context, waits until every
// cancelled call has returned, lets the same goroutines go on with live dispatches and un-stalls the
// aggregators. Every datapoint carries a tag "b:<batch>", so each received series names its batch.
//
// Oracle (per received map, in the order each aggregator received them):
//   - a map holds series of one batch only, each equal to that batch's series, no series twice;
//   - a batch whose dispatch returned before the cancellation, and every batch dispatched with a live
//     context, arrives completely; a cancelled dispatch may deliver any of its splits, nothing else;
//   - worker queues are FIFO and every cancelled call had returned before the first live dispatch began:
//     at one aggregator no map of the cancellable phase may arrive after a map of the live phase;
//   - the routing oracles of the plain e2e variant.

import (
	"context"
	"fmt"
	"math/rand"
	"sort"
	"strconv"
	"strings"
	"sync"
	"sync/atomic"
	"time"

	"github.com/atlassian/gostatsd"
	"github.com/atlassian/gostatsd/pkg/statsd"

	"verif/gen"
	"verif/mon"
	"verif/ref"
)

type e2eCancelCase struct {
	Kind        string              `json:"kind"` // "e2e-cancel"
	Workers     int                 `json:"workers"`
	Buffer      int                 `json:"buffer"`
	Cancellable [][][]ref.Datapoint `json:"cancellable"` // per dispatcher: batches sent with the context that gets cancelled
	After       [][][]ref.Datapoint `json:"after"`       // per dispatcher: batches sent afterwards by the same goroutine, live context
	MainAfter   [][]ref.Datapoint   `json:"main_after"`  // batches sent by another goroutine after the un-stall
}

// stallAggr is a capturing aggregator that can be held inside ReceiveMap.
type stallAggr struct {
	id   int
	gate chan struct{}
	mu   sync.Mutex
	got  []map[string]*ref.Series
}

func (a *stallAggr) ReceiveMap(mm *gostatsd.MetricMap) {
	flat := ref.FromMap(mm)
	a.mu.Lock()
	a.got = append(a.got, flat)
	a.mu.Unlock()
	<-a.gate
}
func (a *stallAggr) Flush(time.Duration)        {}
func (a *stallAggr) Process(statsd.ProcessFunc) {}
func (a *stallAggr) Reset()                     {}

const (
	phaseCancellable = iota
	phaseAfter
)

type cancelBatch struct {
	id    int
	phase int
	flat  map[string]*ref.Series
	mm    *gostatsd.MetricMap
	ret   atomic.Int64 // logical time at which DispatchMetricMap returned (0 = never)
}

func batchOf(s *ref.Series) int {
	for _, t := range s.Tags {
		if strings.HasPrefix(t, "b:") {
			if n, err := strconv.Atoi(t[2:]); err == nil {
				return n
			}
		}
	}
	return -1
}

func (c *checker) checkE2ECancel(cs e2eCancelCase, exposure time.Duration) {
	r := c.r
	gate := make(chan struct{})
	var (
		amu   sync.Mutex
		aggrs []*stallAggr
	)
	factory := statsd.AggregatorFactoryFunc(func() statsd.Aggregator {
		amu.Lock()
		defer amu.Unlock()
		a := &stallAggr{id: len(aggrs), gate: gate}
		aggrs = append(aggrs, a)
		return a
	})
	bh := statsd.NewBackendHandler(nil, 4, cs.Workers, cs.Buffer, factory)
	runCtx, stopRun := context.WithCancel(context.Background())
	defer stopRun()
	runDone := make(chan struct{})
	go func() { defer close(runDone); bh.Run(runCtx) }()
	var openOnce sync.Once
	open := func() { openOnce.Do(func() { close(gate) }) }
	defer open()

	// batch table; ids in a fixed order
	var batches []*cancelBatch
	mk := func(dps []ref.Datapoint, phase int) *cancelBatch {
		id := len(batches)
		tagged := make([]ref.Datapoint, len(dps))
		for i, d := range dps {
			d.Tags = append(append([]string{}, d.Tags...), "b:"+strconv.Itoa(id))
			tagged[i] = d
		}
		b := &cancelBatch{id: id, phase: phase, mm: gen.MapOf(tagged)}
		b.flat = ref.FromMap(b.mm)
		batches = append(batches, b)
		return b
	}
	G := len(cs.Cancellable)
	first := make([][]*cancelBatch, G)
	then := make([][]*cancelBatch, G)
	for g := 0; g < G; g++ {
		for _, dps := range cs.Cancellable[g] {
			first[g] = append(first[g], mk(dps, phaseCancellable))
		}
	}
	for g := 0; g < G; g++ {
		if g < len(cs.After) {
			for _, dps := range cs.After[g] {
				then[g] = append(then[g], mk(dps, phaseAfter))
			}
		}
	}
	var mainThen []*cancelBatch
	for _, dps := range cs.MainAfter {
		mainThen = append(mainThen, mk(dps, phaseAfter))
	}

	cctx, cancel := context.WithCancel(context.Background())
	defer cancel()
	var cancelPhaseDone atomic.Int64
	livePhase := make(chan struct{})
	var wg sync.WaitGroup
	for g := 0; g < G; g++ {
		wg.Add(1)
		go func(g int) {
			defer wg.Done()
			r.Guard("e2e-cancel-dispatch-panic", cs, func() {
				for _, b := range first[g] {
					bh.DispatchMetricMap(cctx, b.mm)
					b.ret.Store(r.Stamp())
				}
				cancelPhaseDone.Add(1)
				<-livePhase
				// the same goroutine, immediately, with a live context
				for _, b := range then[g] {
					bh.DispatchMetricMap(context.Background(), b.mm)
					b.ret.Store(r.Stamp())
				}
			})
		}(g)
	}
	allCancelPhaseDone := func() bool { return cancelPhaseDone.Load() == int64(G) }
	// Exposure window, not synchronisation: the dispatchers run into the full queues within microseconds;
	// cancelling earlier or later is equally legitimate, the oracle holds for every cancellation time.
	mon.WaitUntil(exposure, allCancelPhaseDone)
	cancelStamp := r.Stamp()
	cancel()
	if !mon.WaitUntil(60*time.Second, allCancelPhaseDone) {
		r.Inconclusive("e2e-cancel-cancelled-dispatch-did-not-return")
		open()
		close(livePhase)
		return
	}
	close(livePhase) // every cancelled call has returned: the live phase starts
	open()           // un-stall the aggregators
	r.Guard("e2e-cancel-dispatch-panic", cs, func() {
		for _, b := range mainThen {
			bh.DispatchMetricMap(context.Background(), b.mm)
			b.ret.Store(r.Stamp())
		}
	})
	joined := make(chan struct{})
	go func() { wg.Wait(); close(joined) }()
	select {
	case <-joined:
	case <-time.After(60 * time.Second):
		r.Inconclusive("e2e-cancel-live-dispatch-watchdog")
		return
	}
	stopRun()
	select {
	case <-runDone:
	case <-time.After(60 * time.Second):
		r.Inconclusive("e2e-cancel-run-watchdog")
		return
	}
	r.Eval(1)

	// ---- oracle
	seenSeries := map[string]int{} // batch|key -> aggregator
	delivered := make([]int, len(batches))
	owner := map[string]int{}
	for _, a := range aggrs {
		a.mu.Lock()
		liveSeen := -1
		for mi, flat := range a.got {
			ids := map[int]bool{}
			keys := make([]string, 0, len(flat))
			for k := range flat {
				keys = append(keys, k)
			}
			sort.Strings(keys)
			for _, k := range keys {
				s := flat[k]
				bid := batchOf(s)
				if bid < 0 || bid >= len(batches) {
					r.Violation("e2e-cancel-series-of-no-batch", fmt.Sprintf("aggregator %d received %q which no dispatched batch contains", a.id, k), cs)
					continue
				}
				ids[bid] = true
				b := batches[bid]
				want, ok := b.flat[k]
				if !ok {
					r.Violation("e2e-cancel-series-of-no-batch", fmt.Sprintf("aggregator %d received %q, tagged for batch %d which does not contain it", a.id, k, bid), cs)
					continue
				}
				if d := ref.Diff(map[string]*ref.Series{k: s}, map[string]*ref.Series{k: want}, ref.DiffOpts{}); len(d) > 0 {
					r.Violation("e2e-cancel-series-differs-from-batch:"+firstWords(d[0], 1), fmt.Sprintf("aggregator %d, batch %d: %s", a.id, bid, strings.Join(d, " | ")), cs)
				}
				sk := fmt.Sprintf("%d|%s", bid, k)
				if prev, dup := seenSeries[sk]; dup {
					r.Violation("e2e-cancel-series-received-twice", fmt.Sprintf("series %q of batch %d was received by aggregator %d and again by aggregator %d", k, bid, prev, a.id), cs)
				} else {
					seenSeries[sk] = a.id
					delivered[bid]++
				}
				id := s.Name + "\x00" + s.TagsKey
				if o, ok := owner[id]; ok && o != a.id {
					r.Violation("e2e-key-reached-two-aggregators", fmt.Sprintf("name %q tagsKey %q was received by aggregators %d and %d of %d", s.Name, s.TagsKey, o, a.id, cs.Workers), cs)
				}
				owner[id] = a.id
				if prev, bad, _ := c.e2e.observe(cs.Workers, s.Name, s.TagsKey, a.id); bad {
					r.Violation("e2e-aggregator-not-a-function-of-key", fmt.Sprintf("name %q tagsKey %q with %d aggregators: aggregator %d in an earlier handler of this process, %d now", s.Name, s.TagsKey, cs.Workers, prev, a.id), cs)
				}
			}
			if len(ids) > 1 {
				var l []int
				for id := range ids {
					l = append(l, id)
				}
				sort.Ints(l)
				desc := make([]string, len(l))
				for i, id := range l {
					b := batches[id]
					st := "live context"
					if b.phase == phaseCancellable {
						st = "returned before the cancellation"
						if rt := b.ret.Load(); rt == 0 || rt > cancelStamp {
							st = "cancelled"
						}
					}
					desc[i] = fmt.Sprintf("batch %d (%s)", id, st)
				}
				r.Violation("e2e-cancel-received-map-mixes-batches", fmt.Sprintf("map %d received by aggregator %d of %d (queue %d) holds series of %s: a shard is not part of one batch", mi, a.id, cs.Workers, cs.Buffer, strings.Join(desc, ", ")), cs)
			}
			for id := range ids {
				switch batches[id].phase {
				case phaseAfter:
					if liveSeen < 0 {
						liveSeen = mi
					}
				case phaseCancellable:
					if liveSeen >= 0 && len(ids) == 1 {
						r.Violation("e2e-cancel-split-of-cancellable-phase-delivered-after-live-dispatch", fmt.Sprintf("aggregator %d received map %d with series of batch %d (dispatched with the context that was cancelled; every such call had returned before the live phase began) after map %d of the live phase", a.id, mi, id, liveSeen), cs)
					}
				}
			}
		}
		a.mu.Unlock()
	}
	nCancelled, partial, none := 0, 0, 0
	for _, b := range batches {
		rt := b.ret.Load()
		mustBeComplete := b.phase == phaseAfter || (rt != 0 && rt < cancelStamp)
		if mustBeComplete {
			if delivered[b.id] != len(b.flat) {
				r.Violation("e2e-cancel-series-of-completed-dispatch-missing", fmt.Sprintf("batch %d (%d series, dispatch returned without cancellation) arrived with %d series", b.id, len(b.flat), delivered[b.id]), cs)
			}
			continue
		}
		nCancelled++
		switch {
		case delivered[b.id] == 0:
			none++
		case delivered[b.id] < len(b.flat):
			partial++
		}
	}
	r.Event("cancel_batches_cancelled", nCancelled)
	r.Event("cancel_batches_cancelled_partly_delivered", partial)
	r.Event("cancel_batches_cancelled_not_delivered", none)
	r.Event("cancel_batches_total", len(batches))
	if partial+none > 0 {
		r.Nontrivial(fmt.Sprintf("e2e-cancel:w%d:q%d:g%d:partial=%v:none=%v", cs.Workers, cs.Buffer, G, partial > 0, none > 0))
		if r.WantSample() && !c.cancelSampled {
			c.cancelSampled = true
			r.Sample(map[string]interface{}{"kind": "e2e-cancel", "workers": cs.Workers, "queue": cs.Buffer, "dispatchers": G, "batches": len(batches), "cancelled": nCancelled, "cancelled_partly_delivered": partial, "cancelled_not_delivered": none})
		}
	}
}

func genE2ECancel(rng *rand.Rand, g *batchGen) e2eCancelCase {
	cs := e2eCancelCase{Kind: "e2e-cancel", Workers: 1 + rng.Intn(8), Buffer: rng.Intn(3)}
	G := 1 + rng.Intn(3)
	for d := 0; d < G; d++ {
		var first, then [][]ref.Datapoint
		// enough batches to fill "one in the aggregator + queue" of the workers and block
		for i, n := 0, cs.Buffer+2+rng.Intn(3); i < n; i++ {
			first = append(first, g.batch(30))
		}
		for i, n := 0, 1+rng.Intn(3); i < n; i++ {
			then = append(then, g.batch(40))
		}
		cs.Cancellable = append(cs.Cancellable, first)
		cs.After = append(cs.After, then)
	}
	for i, n := 0, rng.Intn(3); i < n; i++ {
		cs.MainAfter = append(cs.MainAfter, g.batch(40))
	}
	return cs
}
