//go:build verif

// C06 — shard routing is a deterministic partition of series.
//
// Three monitors over the real code:
//
//	split   MetricMap.Split(count) of random batches: every series in exactly one shard, union of the
//	        shards == batch (values, tags, source, timestamps, Forwarded), and a process-wide routing
//	        table (count, name, tagsKey) -> shard that no later split may contradict.
//	xproc   the same key list is routed by a second process (re-exec of this test binary); the two
//	        processes must agree, otherwise the shard depends on something besides (key, count).
//	e2e     a real BackendHandler with capturing aggregators: which aggregator received key k is a
//	        function of k, no key reaches two aggregators, everything dispatched arrives exactly once.
package c06

import (
	"context"
	"encoding/json"
	"fmt"
	"math/rand"
	"os"
	"os/exec"
	"path/filepath"
	"sort"
	"strings"
	"sync"
	"testing"
	"time"

	"github.com/atlassian/gostatsd"
	"github.com/atlassian/gostatsd/pkg/statsd"

	"verif/gen"
	"verif/mon"
	"verif/ref"
)

const maxCount = 64

// ---------------------------------------------------------------------------------------------
// routing table

type routeKey struct {
	count   int
	name    string
	tagsKey string
}

// routingTable remembers, per shard count, where every (name, tagsKey) went. It is process wide and
// only ever grows (bounded), so that the same key met again in another batch, with other values or
// another metric type, must be routed identically.
type routingTable struct {
	mu    sync.Mutex
	m     map[routeKey]int
	limit int
}

func newRoutingTable(limit int) *routingTable {
	return &routingTable{m: map[routeKey]int{}, limit: limit}
}

// observe returns (previous shard, true) when the observation contradicts the table; (_, false) otherwise.
// seenBefore tells whether the key had been routed before (a re-split).
func (rt *routingTable) observe(count int, name, tagsKey string, shard int) (prev int, contradiction bool, seenBefore bool) {
	k := routeKey{count, name, tagsKey}
	rt.mu.Lock()
	defer rt.mu.Unlock()
	if p, ok := rt.m[k]; ok {
		return p, p != shard, true
	}
	if len(rt.m) < rt.limit {
		rt.m[k] = shard
	}
	return 0, false, false
}

// ---------------------------------------------------------------------------------------------
// cases

type splitCase struct {
	Kind       string          `json:"kind"` // "split"
	Datapoints []ref.Datapoint `json:"datapoints"`
	Forwarded  bool            `json:"forwarded"`
	Count      int             `json:"count"`
}

type e2eCase struct {
	Kind        string            `json:"kind"` // "e2e"
	Batches     [][]ref.Datapoint `json:"batches"`
	Forwarded   bool              `json:"forwarded"`
	Workers     int               `json:"workers"`
	Buffer      int               `json:"buffer"`
	Dispatchers int               `json:"dispatchers"`
}

type checker struct {
	r      *mon.Run
	split  *routingTable
	e2e    *routingTable
	e2eTag *routingTable
	resplt int64

	tagSampled    bool
	cancelSampled bool
	srvSampled    bool
	srvMissing    int // server cases in which a series was never reported (reproduced)
}

func typeMask(m map[string]*ref.Series) int {
	mask := 0
	for _, s := range m {
		mask |= 1 << uint(s.Type-1)
	}
	return mask
}

// sameNameDifferentTags implements the non-trivial rule: at least two series share a name and differ in tagsKey.
func sameNameDifferentTags(m map[string]*ref.Series) bool {
	byName := map[string]string{}
	for _, s := range m {
		if tk, ok := byName[s.Name]; ok && tk != s.TagsKey {
			return true
		}
		byName[s.Name] = s.TagsKey
	}
	return false
}

func firstWords(s string, n int) string {
	// "series \"…\": counter 3 want 4" -> "counter"
	if i := strings.Index(s, "\": "); i >= 0 {
		s = s[i+3:]
	}
	f := strings.Fields(s)
	if len(f) > n {
		f = f[:n]
	}
	return strings.Join(f, "-")
}

// checkSplit splits one fresh map once and applies the partition oracles.
func (c *checker) checkSplit(cs splitCase) {
	r := c.r
	mm := gen.MapOf(cs.Datapoints)
	mm.Forwarded = cs.Forwarded
	batch := ref.FromMap(mm)

	var shards []*gostatsd.MetricMap
	if r.Guard("split-panic", cs, func() { shards = mm.Split(cs.Count) }) {
		return
	}
	r.Eval(1)
	if len(shards) != cs.Count {
		r.Violation("split-wrong-number-of-shards", fmt.Sprintf("Split(%d) returned %d maps", cs.Count, len(shards)), cs)
		return
	}
	loc := map[string]int{}
	union := map[string]*ref.Series{}
	nonEmpty := 0
	for i, sh := range shards {
		if sh == nil {
			r.Violation("split-nil-shard", fmt.Sprintf("Split(%d)[%d] is nil", cs.Count, i), cs)
			return
		}
		if sh.Forwarded != cs.Forwarded {
			r.Violation("split-forwarded-flag-changed", fmt.Sprintf("batch Forwarded=%v but shard %d of %d has Forwarded=%v", cs.Forwarded, i, cs.Count, sh.Forwarded), cs)
		}
		flat := ref.FromMap(sh)
		if len(flat) > 0 {
			nonEmpty++
		}
		for k, s := range flat {
			if j, dup := loc[k]; dup {
				r.Violation("split-series-in-two-shards", fmt.Sprintf("series %q is in shards %d and %d of %d", k, j, i, cs.Count), cs)
				continue
			}
			loc[k] = i
			union[k] = s
			prev, bad, seen := c.split.observe(cs.Count, s.Name, s.TagsKey, i)
			if bad {
				r.Violation("split-routing-not-a-function-of-key", fmt.Sprintf("name %q tagsKey %q with %d shards went to shard %d earlier in this process and to shard %d now (type %d)", s.Name, s.TagsKey, cs.Count, prev, i, s.Type), cs)
			}
			if seen {
				c.resplt++
			}
		}
	}
	for k := range batch {
		if _, ok := loc[k]; !ok {
			r.Violation("split-series-in-no-shard", fmt.Sprintf("series %q of the batch is in none of the %d shards", k, cs.Count), cs)
		}
	}
	for k := range loc {
		if _, ok := batch[k]; !ok {
			r.Violation("split-series-not-in-batch", fmt.Sprintf("shard %d of %d holds series %q which the batch does not contain", loc[k], cs.Count, k), cs)
		}
	}
	if d := ref.Diff(union, batch, ref.DiffOpts{}); len(d) > 0 {
		kind := firstWords(d[0], 1)
		if strings.HasPrefix(d[0], "missing") || strings.HasPrefix(d[0], "unexpected") || strings.HasPrefix(d[0], "duplicate") {
			kind = "membership"
		}
		r.Violation("split-union-differs-from-batch:"+kind, fmt.Sprintf("Split(%d): %s", cs.Count, strings.Join(d, " | ")), cs)
	}
	// same (name, tagsKey) under different types must share the shard (the type is not part of the key)
	byKey := map[string]int{}
	for k, i := range loc {
		s := union[k]
		id := s.Name + "\x00" + s.TagsKey
		if j, ok := byKey[id]; ok && j != i {
			r.Violation("split-routing-depends-on-type", fmt.Sprintf("name %q tagsKey %q: shards %d and %d of %d for different metric types", s.Name, s.TagsKey, j, i, cs.Count), cs)
		}
		byKey[id] = i
	}

	r.Event("series_routed", len(loc))
	if sameNameDifferentTags(batch) {
		r.Nontrivial(fmt.Sprintf("split:t%04b:c%d", typeMask(batch), cs.Count))
		if r.WantSample() && cs.Count > 2 && len(batch) >= 4 && len(batch) <= 8 {
			assign := map[string]int{}
			for k, i := range loc {
				assign[k] = i
			}
			r.Sample(map[string]interface{}{"kind": "split", "count": cs.Count, "forwarded": cs.Forwarded, "series_to_shard": assign, "non_empty_shards": nonEmpty})
		}
	}
}

// ---------------------------------------------------------------------------------------------
// batch generator

type keyID struct {
	name   string
	tags   []string
	source string
}

type batchGen struct {
	rng  *rand.Rand
	ring []keyID // identities met before, re-used in later batches with fresh values / types
}

var optSets = []gen.MapOpts{
	{EmptyNames: true},
	{EmptyNames: true, Names: 40, TagPool: 10, MaxTags: 4, Sources: 5},
	{EmptyNames: true, Names: 2, TagPool: 3, MaxTags: 2, Sources: 2},
	{Names: 12, TagPool: 8, MaxTags: 5, Sources: 4, Exact: true},
	{EmptyNames: true, Names: 6, TagPool: 10, MaxTags: 3, Sources: 5, NonFinite: true},
}

func (g *batchGen) batch(maxN int) []ref.Datapoint {
	o := optSets[g.rng.Intn(len(optSets))]
	n := 1 + g.rng.Intn(maxN)
	dps := gen.Datapoints(g.rng, o, n)
	for i := range dps {
		d := &dps[i]
		// never a user tag that looks like the source marker (DESIGN §5)
		for j, t := range d.Tags {
			if strings.HasPrefix(t, "s:") {
				d.Tags[j] = "z" + t
			}
		}
		if len(g.ring) > 0 && g.rng.Intn(3) == 0 {
			k := g.ring[g.rng.Intn(len(g.ring))]
			d.Name, d.Source = k.name, k.source
			d.Tags = append([]string(nil), k.tags...)
			// a different tag order must not matter either
			g.rng.Shuffle(len(d.Tags), func(a, b int) { d.Tags[a], d.Tags[b] = d.Tags[b], d.Tags[a] })
		} else {
			k := keyID{d.Name, append([]string(nil), d.Tags...), d.Source}
			if len(g.ring) < 512 {
				g.ring = append(g.ring, k)
			} else {
				g.ring[g.rng.Intn(len(g.ring))] = k
			}
		}
	}
	return dps
}

func pickCounts(rng *rand.Rand, n int) []int {
	if n >= maxCount {
		out := make([]int, maxCount)
		for i := range out {
			out[i] = i + 1
		}
		return out
	}
	seen := map[int]bool{}
	var out []int
	for _, c := range []int{1, 2, maxCount} {
		if rng.Intn(3) == 0 && !seen[c] {
			seen[c] = true
			out = append(out, c)
		}
	}
	for len(out) < n {
		c := 1 + rng.Intn(maxCount)
		if !seen[c] {
			seen[c] = true
			out = append(out, c)
		}
	}
	return out
}

// ---------------------------------------------------------------------------------------------
// cross-process agreement

const childEnv = "VERIF_C06_CHILD_OUT"

// xprocKeys is a fixed list of (name, tags, source) — a function of nothing — routed by both processes.
func xprocKeys() []ref.Datapoint {
	rng := rand.New(rand.NewSource(60606))
	dps := gen.Datapoints(rng, gen.MapOpts{EmptyNames: true, Names: 30, TagPool: 10, MaxTags: 4, Sources: 5}, 300)
	for i := range dps {
		for j, t := range dps[i].Tags {
			if strings.HasPrefix(t, "s:") {
				dps[i].Tags[j] = "z" + t
			}
		}
	}
	return dps
}

// routeAll splits the fixed key list with every count and returns "count|type|name|tagsKey" -> shard.
func routeAll() map[string]int {
	out := map[string]int{}
	dps := xprocKeys()
	for count := 1; count <= maxCount; count++ {
		shards := gen.MapOf(dps).Split(count)
		for i, sh := range shards {
			for k := range ref.FromMap(sh) {
				out[fmt.Sprintf("%d|%s", count, k)] = i
			}
		}
	}
	return out
}

func childMain(path string) {
	b, _ := json.Marshal(routeAll())
	_ = os.WriteFile(path, b, 0o644)
}

func (c *checker) crossProcess(t *testing.T) {
	r := c.r
	dir := t.TempDir()
	path := filepath.Join(dir, "child-routes.json")
	r.Case("xproc re-exec of %s", os.Args[0])
	cmd := exec.Command(os.Args[0], "-test.run", "^TestCheck$")
	cmd.Env = append(os.Environ(), childEnv+"="+path)
	cmd.Dir = dir
	if out, err := cmd.CombinedOutput(); err != nil {
		r.Inconclusive("xproc-child-failed")
		t.Logf("child process failed: %v\n%s", err, out)
		return
	}
	b, err := os.ReadFile(path)
	var theirs map[string]int
	if err != nil || json.Unmarshal(b, &theirs) != nil {
		r.Inconclusive("xproc-child-output-unreadable")
		return
	}
	mine := routeAll()
	r.Eval(1)
	r.Event("xproc_keys_compared", len(mine))
	keys := make([]string, 0, len(mine))
	for k := range mine {
		keys = append(keys, k)
	}
	sort.Strings(keys)
	bad := 0
	for _, k := range keys {
		if v, ok := theirs[k]; !ok || v != mine[k] {
			bad++
			if bad == 1 {
				r.Violation("routing-differs-between-processes", fmt.Sprintf("key %q (count|type|name|tagsKey): shard %d in this process, %d (present=%v) in a second process running the same binary; the shard is not a function of (key, count) alone", k, mine[k], v, ok), map[string]interface{}{"kind": "xproc", "key": k})
			}
		}
	}
	if len(theirs) != len(mine) {
		r.Violation("routing-differs-between-processes", fmt.Sprintf("%d routed keys here, %d in the second process", len(mine), len(theirs)), map[string]interface{}{"kind": "xproc"})
	}
	r.Nontrivial("xproc:all-counts")
}

// ---------------------------------------------------------------------------------------------
// end to end: real BackendHandler, capturing aggregators

type captureAggr struct {
	id       int
	mu       sync.Mutex
	received []map[string]*ref.Series
	fwd      []bool
}

func (a *captureAggr) ReceiveMap(mm *gostatsd.MetricMap) {
	flat := ref.FromMap(mm)
	a.mu.Lock()
	a.received = append(a.received, flat)
	a.fwd = append(a.fwd, mm.Forwarded)
	a.mu.Unlock()
}
func (a *captureAggr) Flush(time.Duration)        {}
func (a *captureAggr) Process(statsd.ProcessFunc) {}
func (a *captureAggr) Reset()                     {}

func (c *checker) checkE2E(cs e2eCase) {
	r := c.r
	var (
		amu   sync.Mutex
		aggrs []*captureAggr
	)
	factory := statsd.AggregatorFactoryFunc(func() statsd.Aggregator {
		amu.Lock()
		defer amu.Unlock()
		a := &captureAggr{id: len(aggrs)}
		aggrs = append(aggrs, a)
		return a
	})
	bh := statsd.NewBackendHandler(nil, 4, cs.Workers, cs.Buffer, factory)
	ctx, cancel := context.WithCancel(context.Background())
	runDone := make(chan struct{})
	go func() {
		defer close(runDone)
		bh.Run(ctx)
	}()

	// the reference: everything dispatched, folded per dispatcher in dispatch order
	want := ref.NewFolded()
	maps := make([]*gostatsd.MetricMap, len(cs.Batches))
	for i, dps := range cs.Batches {
		maps[i] = gen.MapOf(dps)
		maps[i].Forwarded = cs.Forwarded
		want.AddMap(ref.FromMap(maps[i]))
	}
	var wg sync.WaitGroup
	for d := 0; d < cs.Dispatchers; d++ {
		wg.Add(1)
		go func(d int) {
			defer wg.Done()
			r.Guard("e2e-dispatch-panic", cs, func() {
				for i := d; i < len(maps); i += cs.Dispatchers {
					bh.DispatchMetricMap(context.Background(), maps[i])
				}
			})
		}(d)
	}
	dispatched := make(chan struct{})
	go func() { wg.Wait(); close(dispatched) }()
	select {
	case <-dispatched:
	case <-time.After(60 * time.Second):
		r.Inconclusive("e2e-dispatch-watchdog")
		cancel()
		return
	}
	// Run closes the queues on cancellation; the workers drain what is buffered and then stop.
	cancel()
	select {
	case <-runDone:
	case <-time.After(60 * time.Second):
		r.Inconclusive("e2e-run-watchdog")
		return
	}
	r.Eval(1)

	if len(aggrs) != cs.Workers {
		r.Violation("e2e-wrong-number-of-aggregators", fmt.Sprintf("%d workers configured, factory called %d times", cs.Workers, len(aggrs)), cs)
		return
	}
	got := ref.NewFolded()
	owner := map[string]int{} // name\0tagsKey -> aggregator
	nMaps := 0
	for _, a := range aggrs {
		a.mu.Lock()
		for i, flat := range a.received {
			nMaps++
			if a.fwd[i] != cs.Forwarded {
				r.Violation("e2e-forwarded-flag-changed", fmt.Sprintf("dispatched Forwarded=%v, aggregator %d received Forwarded=%v", cs.Forwarded, a.id, a.fwd[i]), cs)
			}
			if len(flat) == 0 {
				r.Event("e2e_empty_map_received", 1)
			}
			got.AddMap(flat)
			for _, s := range flat {
				id := s.Name + "\x00" + s.TagsKey
				if o, ok := owner[id]; ok && o != a.id {
					r.Violation("e2e-key-reached-two-aggregators", fmt.Sprintf("name %q tagsKey %q was received by aggregators %d and %d of %d", s.Name, s.TagsKey, o, a.id, cs.Workers), cs)
				}
				owner[id] = a.id
				if prev, bad, _ := c.e2e.observe(cs.Workers, s.Name, s.TagsKey, a.id); bad {
					r.Violation("e2e-aggregator-not-a-function-of-key", fmt.Sprintf("name %q tagsKey %q with %d aggregators: aggregator %d in an earlier handler of this process, %d now", s.Name, s.TagsKey, cs.Workers, prev, a.id), cs)
				}
			}
		}
		a.mu.Unlock()
	}
	// Conservation: what the aggregators received, folded, is what was dispatched, folded. With more
	// than one dispatcher the relative order of batches is free, so gauges are compared as a set.
	opts := ref.DiffOpts{IgnoreGauge: cs.Dispatchers > 1}
	if cs.Dispatchers > 1 {
		// the order in which an aggregator adds up the sampled counts (1/rate) of concurrently dispatched batches
		// is free, and floating-point addition is not associative: equal up to rounding (seen once: 1 ulp)
		opts.SampledRel = 1e-9
	}
	if d := ref.Diff(got.Series, want.Series, opts); len(d) > 0 {
		kind := firstWords(d[0], 1)
		if strings.HasPrefix(d[0], "missing") || strings.HasPrefix(d[0], "unexpected") || strings.HasPrefix(d[0], "duplicate") {
			kind = "membership"
		}
		r.Violation("e2e-received-differs-from-dispatched:"+kind, fmt.Sprintf("%d workers: %s", cs.Workers, strings.Join(d, " | ")), cs)
	}
	if cs.Dispatchers > 1 {
		if d := want.CheckGauges(got.Series); len(d) > 0 {
			r.Violation("e2e-received-differs-from-dispatched:gauge", strings.Join(d, " | "), cs)
		}
	}
	r.Event("e2e_maps_dispatched", len(maps))
	r.Event("e2e_maps_received", nMaps)
	if sameNameDifferentTags(want.Series) {
		r.Nontrivial(fmt.Sprintf("e2e:t%04b:w%d", typeMask(want.Series), cs.Workers))
		if r.WantSample() && cs.Workers > 1 && len(owner) <= 10 {
			o := map[string]int{}
			for k, v := range owner {
				o[strings.Replace(k, "\x00", "|", 1)] = v
			}
			r.Sample(map[string]interface{}{"kind": "e2e", "workers": cs.Workers, "buffer": cs.Buffer, "batches": len(cs.Batches), "key_to_aggregator": o})
		}
	}
}

// ---------------------------------------------------------------------------------------------
// end to end as the server wires it: TagHandler -> BackendHandler, series spelled in several ways

// e2eTagCase: rounds (one round = everything between two drains of all aggregators, a "flush") of
// batches whose datapoints name the same series (name, tag SET, source) under different spellings:
// duplicate tags, another tag order, nil versus empty tag list.
type e2eTagCase struct {
	Kind        string              `json:"kind"` // "e2e-tag"
	Rounds      [][][]ref.Datapoint `json:"rounds"`
	Static      []string            `json:"static"`
	Workers     int                 `json:"workers"`
	Buffer      int                 `json:"buffer"` // 0 when there is more than one round (drain barrier)
	Dispatchers int                 `json:"dispatchers"`
}

// mapOfSpelled is gen.MapOf, except that an empty non-nil tag list reaches Receive as such.
func mapOfSpelled(dps []ref.Datapoint) *gostatsd.MetricMap {
	mm := gostatsd.NewMetricMap(false)
	for _, d := range dps {
		m := d.Metric()
		if d.Tags != nil && len(d.Tags) == 0 {
			m.Tags = gostatsd.Tags{}
		}
		mm.Receive(m)
	}
	return mm
}

func tagSet(tags []string, extra []string) []string {
	seen := map[string]bool{}
	var out []string
	for _, t := range append(append([]string{}, tags...), extra...) {
		if !seen[t] {
			seen[t] = true
			out = append(out, t)
		}
	}
	sort.Strings(out)
	return out
}

// endRound is run on the worker's goroutine through BackendHandler.Process: what was received since
// the previous call is one flush worth of data of this aggregator.
func (a *captureAggr) endRound() []map[string]*ref.Series {
	a.mu.Lock()
	defer a.mu.Unlock()
	out := a.received
	a.received, a.fwd = nil, nil
	return out
}

func (c *checker) checkE2ETag(cs e2eTagCase) {
	r := c.r
	var (
		amu   sync.Mutex
		aggrs []*captureAggr
	)
	factory := statsd.AggregatorFactoryFunc(func() statsd.Aggregator {
		amu.Lock()
		defer amu.Unlock()
		a := &captureAggr{id: len(aggrs)}
		aggrs = append(aggrs, a)
		return a
	})
	bh := statsd.NewBackendHandler(nil, 4, cs.Workers, cs.Buffer, factory)
	var static gostatsd.Tags
	if len(cs.Static) > 0 {
		static = append(gostatsd.Tags{}, cs.Static...)
	}
	th := statsd.NewTagHandler(bh, static, nil)
	ctx, cancel := context.WithCancel(context.Background())
	defer cancel()
	runDone := make(chan struct{})
	go func() {
		defer close(runDone)
		bh.Run(ctx)
	}()
	if len(aggrs) != cs.Workers {
		r.Violation("e2e-wrong-number-of-aggregators", fmt.Sprintf("%d workers configured, factory called %d times", cs.Workers, len(aggrs)), cs)
		return
	}

	for ri, round := range cs.Rounds {
		maps := make([]*gostatsd.MetricMap, len(round))
		want := ref.NewFolded()
		spellings := map[string]map[string]bool{} // identity -> raw keys it was sent under
		for i, dps := range round {
			maps[i] = mapOfSpelled(dps)
			for _, d := range dps {
				canon := d
				canon.Tags = tagSet(d.Tags, cs.Static)
				want.AddDatapoint(canon)
				id := ref.Key(d.Type, d.Name, ref.TagsKey(canon.Tags, d.Source))
				if spellings[id] == nil {
					spellings[id] = map[string]bool{}
				}
				spellings[id][ref.TagsKey(d.Tags, d.Source)] = true
			}
		}
		var wg sync.WaitGroup
		for d := 0; d < cs.Dispatchers; d++ {
			wg.Add(1)
			go func(d int) {
				defer wg.Done()
				r.Guard("e2e-tag-dispatch-panic", cs, func() {
					for i := d; i < len(maps); i += cs.Dispatchers {
						th.DispatchMetricMap(context.Background(), maps[i])
					}
				})
			}(d)
		}
		dispatched := make(chan struct{})
		go func() { wg.Wait(); close(dispatched) }()
		select {
		case <-dispatched:
		case <-time.After(60 * time.Second):
			r.Inconclusive("e2e-tag-dispatch-watchdog")
			return
		}
		// Drain of all aggregators. With unbuffered queues every dispatched map has been taken by its
		// worker when DispatchMetricMap returns, so a Process command is handled after it. With buffered
		// queues (single round) the queues are drained by stopping the handler.
		perAggr := make([][]map[string]*ref.Series, cs.Workers)
		if cs.Buffer > 0 || ri == len(cs.Rounds)-1 {
			cancel()
			select {
			case <-runDone:
			case <-time.After(60 * time.Second):
				r.Inconclusive("e2e-tag-run-watchdog")
				return
			}
			for _, a := range aggrs {
				perAggr[a.id] = a.endRound()
			}
		} else {
			var pmu sync.Mutex
			wait := bh.Process(ctx, func(id int, a statsd.Aggregator) {
				got := a.(*captureAggr).endRound()
				pmu.Lock()
				perAggr[id] = got
				pmu.Unlock()
			})
			done := make(chan struct{})
			go func() { wait(); close(done) }()
			select {
			case <-done:
			case <-time.After(60 * time.Second):
				r.Inconclusive("e2e-tag-process-watchdog")
				return
			}
		}
		r.Eval(1)

		// the oracle, keyed by the identity of the series: (type, name, tag set, source)
		type place struct {
			aggr int
			key  string
		}
		where := map[string]map[place]bool{}
		got := ref.NewFolded()
		for ai, flats := range perAggr {
			for _, flat := range flats {
				keys := make([]string, 0, len(flat))
				for k := range flat {
					keys = append(keys, k)
				}
				sort.Strings(keys)
				for _, k := range keys {
					s := flat[k]
					set := tagSet(s.Tags, nil)
					id := ref.Key(s.Type, s.Name, ref.TagsKey(set, s.Source))
					if where[id] == nil {
						where[id] = map[place]bool{}
					}
					where[id][place{ai, s.TagsKey}] = true
					s2 := *s
					s2.Tags, s2.TagsKey = set, ref.TagsKey(set, s.Source)
					got.AddSeries(&s2)
					if prev, bad, _ := c.e2eTag.observe(cs.Workers, fmt.Sprintf("%d|%s", s.Type, s.Name), s2.TagsKey, ai); bad {
						r.Violation("e2e-tag-aggregator-not-a-function-of-series", fmt.Sprintf("series %q with %d aggregators: aggregator %d earlier in this process, %d now (received under key %q)", id, cs.Workers, prev, ai, s.TagsKey), cs)
					}
				}
			}
		}
		respelled := 0
		for id, keys := range spellings {
			if len(keys) > 1 {
				respelled++
			}
			_ = id
		}
		ids := make([]string, 0, len(where))
		for id := range where {
			ids = append(ids, id)
		}
		sort.Strings(ids)
		for _, id := range ids {
			places := where[id]
			as := map[int]bool{}
			var desc []string
			for p := range places {
				as[p.aggr] = true
				desc = append(desc, fmt.Sprintf("aggregator %d key %q", p.aggr, p.key))
			}
			sort.Strings(desc)
			if len(as) > 1 {
				r.Violation("e2e-tag-series-reached-two-aggregators", fmt.Sprintf("round %d: the series %q (type|name|tag set,source) is held by %s; sent under the spellings %v", ri, id, strings.Join(desc, " and "), keysOf(spellings[id])), cs)
			} else if len(places) > 1 {
				r.Violation("e2e-tag-series-twice-in-one-flush", fmt.Sprintf("round %d: the series %q is held under several keys of one aggregator: %s; sent under the spellings %v", ri, id, strings.Join(desc, " and "), keysOf(spellings[id])), cs)
			}
		}
		d := ref.Diff(got.Series, want.Series, ref.DiffOpts{IgnoreGauge: true, SampledRel: 1e-9})
		d = append(d, want.CheckGauges(got.Series)...)
		if len(d) > 0 {
			kind := firstWords(d[0], 1)
			if strings.HasPrefix(d[0], "missing") || strings.HasPrefix(d[0], "unexpected") || strings.HasPrefix(d[0], "duplicate") {
				kind = "membership"
			}
			r.Violation("e2e-tag-received-differs-from-dispatched:"+kind, fmt.Sprintf("round %d, %d workers, static %q: %s", ri, cs.Workers, cs.Static, strings.Join(d, " | ")), cs)
		}
		r.Event("e2e_tag_series", len(where))
		r.Event("e2e_tag_respelled_series", respelled)
		if respelled > 0 && sameNameDifferentTags(want.Series) {
			sp := respelled
			if sp > 3 {
				sp = 3
			}
			r.Nontrivial(fmt.Sprintf("e2e-tag:t%04b:w%d:static=%v:respelled%d:round%d", typeMask(want.Series), cs.Workers, len(cs.Static) > 0, sp, ri))
			if r.WantSample() && cs.Workers > 1 && len(where) <= 6 && !c.tagSampled {
				c.tagSampled = true
				o := map[string][]string{}
				for id := range where {
					o[id] = keysOf(spellings[id])
				}
				r.Sample(map[string]interface{}{"kind": "e2e-tag", "workers": cs.Workers, "static": cs.Static, "series_to_spellings": o})
			}
		}
	}
}

func keysOf(m map[string]bool) []string {
	out := make([]string, 0, len(m))
	for k := range m {
		out = append(out, k)
	}
	sort.Strings(out)
	return out
}

var spellTags = []string{"env:prod", "env:dev", "region:us", "bare", "a:1", "a:2"}

func genE2ETag(rng *rand.Rand) e2eTagCase {
	cs := e2eTagCase{Kind: "e2e-tag", Workers: 2 + rng.Intn(15), Buffer: rng.Intn(5), Dispatchers: 1 + rng.Intn(3), Static: []string{}}
	if rng.Intn(8) == 0 {
		cs.Workers = 1 + rng.Intn(maxCount)
	}
	switch rng.Intn(4) {
	case 0:
		cs.Static = []string{"dc:x"}
	case 1:
		cs.Static = []string{spellTags[rng.Intn(len(spellTags))]} // equal to a possible metric tag
	}
	nRounds := 1 + rng.Intn(3)
	if nRounds > 1 {
		cs.Buffer = 0
	}
	// a few identities per case, met again and again under other spellings
	type ident struct {
		name   string
		tags   []string
		source string
	}
	ids := make([]ident, 2+rng.Intn(5))
	for i := range ids {
		ids[i] = ident{name: fmt.Sprintf("m%d", rng.Intn(3)), source: []string{"", "10.0.0.1", "10.0.0.2"}[rng.Intn(3)]}
		for j, n := 0, rng.Intn(4); j < n; j++ {
			ids[i].tags = append(ids[i].tags, spellTags[rng.Intn(len(spellTags))])
		}
		ids[i].tags = tagSet(ids[i].tags, nil)
	}
	for ri := 0; ri < nRounds; ri++ {
		var round [][]ref.Datapoint
		for b, nb := 0, 1+rng.Intn(5); b < nb; b++ {
			dps := gen.Datapoints(rng, gen.MapOpts{Exact: true, TimeBase: 1000, TimeSpread: 4}, 1+rng.Intn(8))
			for i := range dps {
				d := &dps[i]
				id := ids[rng.Intn(len(ids))]
				d.Name, d.Source = id.name, id.source
				tags := append([]string{}, id.tags...)
				for len(tags) > 0 && rng.Intn(3) == 0 { // duplicate one of the tags
					tags = append(tags, tags[rng.Intn(len(tags))])
				}
				rng.Shuffle(len(tags), func(a, b int) { tags[a], tags[b] = tags[b], tags[a] })
				switch {
				case len(tags) > 0:
					d.Tags = tags
				case rng.Intn(2) == 0:
					d.Tags = []string{} // empty, not nil
				default:
					d.Tags = nil
				}
			}
			round = append(round, dps)
		}
		cs.Rounds = append(cs.Rounds, round)
	}
	return cs
}

// ---------------------------------------------------------------------------------------------

func TestCheck(t *testing.T) {
	if p := os.Getenv(childEnv); p != "" {
		childMain(p)
		return
	}
	r := mon.Start(t, "C06")
	defer r.Finish()
	r.Rule("cases: (split) a random batch (1..40 datapoints of all four types, empty names/tags/sources included, one third of the identities re-used from earlier batches with new values, types and tag order) is turned into a MetricMap and Split with 8 (quick) or all 64 (thorough) shard counts from 1..64; every split is checked for exactly-one-shard membership, union == batch (values, tags, source, timestamp, Forwarded) and against a process-wide routing table (count, name, tagsKey) -> shard; (xproc) a fixed list of 300 identities is routed for all 64 counts here and in a second process and compared; (e2e) batches dispatched through a real BackendHandler (1..16 workers, queue 0..4, 1..3 dispatchers) with capturing aggregators: key -> aggregator is a function, nothing lost or duplicated; (e2e-tag) the server's wiring TagHandler (no filters, no or one static tag) -> BackendHandler (1..64 workers) receives 1..3 rounds of 1..5 batches built with MetricMap.Receive in which 2..6 series are spelled in different ways (duplicate tags, other tag order, nil versus empty tag list), by 1..3 concurrent dispatchers; after every round all aggregators are drained (Process barrier on unbuffered queues, or stopping the handler) and, keyed by the series identity (type, name, sorted de-duplicated tag set, source), every series must be held by exactly one aggregator under exactly one key, by the same aggregator in every round and handler instance, with values equal to the reference fold of the round.; (e2e-cancel) a BackendHandler (1..8 workers, queue 0..2) whose capturing aggregators are stalled inside ReceiveMap: 1..3 dispatcher goroutines send queue+2..4 batches each with one cancellable context and run into the full queues, the harness cancels, waits until every cancelled call has returned, lets the same goroutines go on at once with 1..3 batches on a live context, un-stalls the aggregators and dispatches 0..2 more batches itself; every datapoint is tagged with its batch, and every received map must hold series of one batch only, equal to that batch, no series twice, every non-cancelled batch complete, nothing of the cancellable phase after a live-phase map at one aggregator.; (server) the real statsd.Server run in process (RunWithCustomSocket, standalone, 1..9 workers, 20 ms flush) with a fake cloud provider cache in three quarters of the cases (instance tags drawn from the tags clients spell out), an optional static tag, and 2..5 series sent in 2..4 rounds under several spellings over both ingestion paths - statsd lines on a scripted UDP socket, and protobuf bodies on /v2/raw whose inner map keys the sender chooses (as a forwarder renders them, unsorted, permuted, or unrelated to the Tags field): every map the flusher hands to the capturing backend is one aggregator's contribution to one flush, and per flush every series identity (type, name, tag set, source after cloud provider and static tags) must be reported by exactly one aggregator under one key, by the same aggregator in every flush, every series sent must be reported and counter totals, timer values (unique per datapoint) and set members over all flushes must be what was sent; in three fifths of the cases the capturing backend follows a script for the first 1..3 flushes that carry data - it keeps all callbacks of the flush until the harness has sent the next round (ingestion overlapping a flush that waits for its backend), and/or answers every other callback with an error from its own goroutine - and within one flush (hand-overs up to the moment all callbacks have been invoked, including hand-overs made from inside a callback) no aggregator map may be handed over twice. Non-trivial: the batch holds at least two series with the same name and different tag keys; distinct by (kind, set of metric types present, shard count; for e2e-tag also static tag, number of re-spelled series, round; for e2e-cancel a cancelled batch was delivered partly or not at all, by workers, queue size, dispatchers; for server a series was sent under several spellings, by workers, power of two or not, cloud, static tag, flushes held, error answers).")
	r.Assume("ref.FromMap (harness) flattens a MetricMap faithfully; MetricMap.Receive is used to build the input batches")
	c := &checker{r: r, split: newRoutingTable(400000), e2e: newRoutingTable(200000), e2eTag: newRoutingTable(200000)}

	if p := r.ReplayPayload(); p != nil {
		replay(t, c, p)
		return
	}

	rng := r.Rand("c06")
	g := &batchGen{rng: rng}
	nMaps := r.N(2400, 250000)
	perMap := r.Pick(8, maxCount)
	for i := 0; i < nMaps; i++ {
		dps := g.batch(40)
		fwd := rng.Intn(2) == 0
		for _, count := range pickCounts(rng, perMap) {
			cs := splitCase{Kind: "split", Datapoints: dps, Forwarded: fwd, Count: count}
			if i%64 == 0 {
				r.Case("split count=%d fwd=%v n=%d first=%+v", count, fwd, len(dps), dps[0])
			}
			c.checkSplit(cs)
		}
	}
	r.Extra("resplit_observations", c.resplt)

	nE2E := r.N(240, 30000)
	for i := 0; i < nE2E; i++ {
		cs := e2eCase{Kind: "e2e", Forwarded: rng.Intn(2) == 0, Workers: 1 + rng.Intn(16), Buffer: rng.Intn(5), Dispatchers: 1 + rng.Intn(3)}
		if rng.Intn(6) == 0 {
			cs.Workers = 1 + rng.Intn(maxCount)
		}
		nb := 1 + rng.Intn(8)
		for b := 0; b < nb; b++ {
			cs.Batches = append(cs.Batches, g.batch(12))
		}
		r.Case("e2e workers=%d buffer=%d dispatchers=%d batches=%d", cs.Workers, cs.Buffer, cs.Dispatchers, nb)
		c.checkE2E(cs)
	}

	nTag := r.N(640, 60000)
	for i := 0; i < nTag; i++ {
		cs := genE2ETag(rng)
		r.Case("e2e-tag workers=%d buffer=%d dispatchers=%d rounds=%d static=%q", cs.Workers, cs.Buffer, cs.Dispatchers, len(cs.Rounds), cs.Static)
		c.checkE2ETag(cs)
	}

	// the partition as the aggregators of a real server report it (wiring, cloud provider, both ingestion paths)
	srng := r.Rand("c06-server")
	nSrv := r.N(240, 6000)
	for i := 0; i < nSrv; i++ {
		sc := genSrvCase(srng)
		r.Case("server case %d: workers=%d cloud=%v static=%q rounds=%d backend-script=%q", i, sc.Workers, sc.Cloud, sc.Static, len(sc.Rounds), sc.Script)
		c.serverCase(sc)
	}

	nCancel := r.N(480, 40000)
	for i := 0; i < nCancel; i++ {
		cs := genE2ECancel(rng, g)
		r.Case("e2e-cancel workers=%d queue=%d dispatchers=%d", cs.Workers, cs.Buffer, len(cs.Cancellable))
		c.checkE2ECancel(cs, time.Millisecond)
	}

	if s, _ := r.Shard(); s == 0 {
		c.crossProcess(t)
	}
}

func replay(t *testing.T, c *checker, p []byte) {
	var probe struct {
		Kind string `json:"kind"`
	}
	if mon.ReplayCase(p, &probe) == nil {
		t.Skip("no case in replay file")
	}
	switch probe.Kind {
	case "split":
		var cs splitCase
		mon.ReplayCase(p, &cs)
		// twice: the second split of the same key set must agree with the first through the routing table
		c.checkSplit(cs)
		c.checkSplit(cs)
	case "e2e":
		var cs e2eCase
		mon.ReplayCase(p, &cs)
		c.checkE2E(cs)
		c.checkE2E(cs)
	case "server":
		var sc srvCase
		mon.ReplayCase(p, &sc)
		for i := 0; i < 3; i++ {
			c.serverCase(&sc)
		}
	case "e2e-cancel":
		var cs e2eCancelCase
		mon.ReplayCase(p, &cs)
		for i := 0; i < 50; i++ {
			c.checkE2ECancel(cs, 2*time.Millisecond)
		}
	case "e2e-tag":
		var cs e2eTagCase
		mon.ReplayCase(p, &cs)
		for i := 0; i < 20; i++ {
			c.checkE2ETag(cs)
		}
	case "xproc":
		c.crossProcess(t)
	default:
		t.Skip("unknown case kind")
	}
	c.r.Nontrivial("replay-a")
	c.r.Nontrivial("replay-b")
}
