//go:build verif

// C06 — shard routing is a deterministic partition of series.
//
// Three monitors over the real code:
//
//	split   MetricMap.Split(count) of random batches: every series in exactly one shard, union of the
//	        shards == batch (values, tags, source, timestamps, Forwarded), and a process-wide routing
//	        table (count, name, tagsKey) -> shard that no later split may contradict.
//	xproc   the same key list is routed by a second process (re-exec of this test binary); the two
//	        processes must agree, otherwise the shard depends on something besides (key, count).
//	e2e     a real BackendHandler with capturing aggregators: which aggregator received key k is a
//	        function of k, no key reaches two aggregators, everything dispatched arrives exactly once.
package c06

import (
	"context"
	"encoding/json"
	"fmt"
	"math/rand"
	"os"
	"os/exec"
	"path/filepath"
	"sort"
	"strings"
	"sync"
	"testing"
	"time"

	"github.com/atlassian/gostatsd"
	"github.com/atlassian/gostatsd/pkg/statsd"

	"verif/gen"
	"verif/mon"
	"verif/ref"
)

const maxCount = 64

// ---------------------------------------------------------------------------------------------
// routing table

type routeKey struct {
	count   int
	name    string
	tagsKey string
}

// routingTable remembers, per shard count, where every (name, tagsKey) went. It is process wide and
// only ever grows (bounded), so that the same key met again in another batch, with other values or
// another metric type, must be routed identically.
type routingTable struct {
	mu    sync.Mutex
	m     map[routeKey]int
	limit int
}

func newRoutingTable(limit int) *routingTable {
	return &routingTable{m: map[routeKey]int{}, limit: limit}
}

// observe returns (previous shard, true) when the observation contradicts the table; (_, false) otherwise.
// seenBefore tells whether the key had been routed before (a re-split).
func (rt *routingTable) observe(count int, name, tagsKey string, shard int) (prev int, contradiction bool, seenBefore bool) {
	k := routeKey{count, name, tagsKey}
	rt.mu.Lock()
	defer rt.mu.Unlock()
	if p, ok := rt.m[k]; ok {
		return p, p != shard, true
	}
	if len(rt.m) < rt.limit {
		rt.m[k] = shard
	}
	return 0, false, false
}

// ---------------------------------------------------------------------------------------------
// cases

type splitCase struct {
	Kind       string          `json:"kind"` // "split"
	Datapoints []ref.Datapoint `json:"datapoints"`
	Forwarded  bool            `json:"forwarded"`
	Count      int             `json:"count"`
}

type e2eCase struct {
	Kind        string            `json:"kind"` // "e2e"
	Batches     [][]ref.Datapoint `json:"batches"`
	Forwarded   bool              `json:"forwarded"`
	Workers     int               `json:"workers"`
	Buffer      int               `json:"buffer"`
	Dispatchers int               `json:"dispatchers"`
}

type checker struct {
	r      *mon.Run
	split  *routingTable
	e2e    *routingTable
	resplt int64
}

func typeMask(m map[string]*ref.Series) int {
	mask := 0
	for _, s := range m {
		mask |= 1 << uint(s.Type-1)
	}
	return mask
}

// sameNameDifferentTags implements the non-trivial rule: at least two series share a name and differ in tagsKey.
func sameNameDifferentTags(m map[string]*ref.Series) bool {
	byName := map[string]string{}
	for _, s := range m {
		if tk, ok := byName[s.Name]; ok && tk != s.TagsKey {
			return true
		}
		byName[s.Name] = s.TagsKey
	}
	return false
}

func firstWords(s string, n int) string {
	// "series \"…\": counter 3 want 4" -> "counter"
	if i := strings.Index(s, "\": "); i >= 0 {
		s = s[i+3:]
	}
	f := strings.Fields(s)
	if len(f) > n {
		f = f[:n]
	}
	return strings.Join(f, "-")
}

// checkSplit splits one fresh map once and applies the partition oracles.
func (c *checker) checkSplit(cs splitCase) {
	r := c.r
	mm := gen.MapOf(cs.Datapoints)
	mm.Forwarded = cs.Forwarded
	batch := ref.FromMap(mm)

	var shards []*gostatsd.MetricMap
	if r.Guard("split-panic", cs, func() { shards = mm.Split(cs.Count) }) {
		return
	}
	r.Eval(1)
	if len(shards) != cs.Count {
		r.Violation("split-wrong-number-of-shards", fmt.Sprintf("Split(%d) returned %d maps", cs.Count, len(shards)), cs)
		return
	}
	loc := map[string]int{}
	union := map[string]*ref.Series{}
	nonEmpty := 0
	for i, sh := range shards {
		if sh == nil {
			r.Violation("split-nil-shard", fmt.Sprintf("Split(%d)[%d] is nil", cs.Count, i), cs)
			return
		}
		if sh.Forwarded != cs.Forwarded {
			r.Violation("split-forwarded-flag-changed", fmt.Sprintf("batch Forwarded=%v but shard %d of %d has Forwarded=%v", cs.Forwarded, i, cs.Count, sh.Forwarded), cs)
		}
		flat := ref.FromMap(sh)
		if len(flat) > 0 {
			nonEmpty++
		}
		for k, s := range flat {
			if j, dup := loc[k]; dup {
				r.Violation("split-series-in-two-shards", fmt.Sprintf("series %q is in shards %d and %d of %d", k, j, i, cs.Count), cs)
				continue
			}
			loc[k] = i
			union[k] = s
			prev, bad, seen := c.split.observe(cs.Count, s.Name, s.TagsKey, i)
			if bad {
				r.Violation("split-routing-not-a-function-of-key", fmt.Sprintf("name %q tagsKey %q with %d shards went to shard %d earlier in this process and to shard %d now (type %d)", s.Name, s.TagsKey, cs.Count, prev, i, s.Type), cs)
			}
			if seen {
				c.resplt++
			}
		}
	}
	for k := range batch {
		if _, ok := loc[k]; !ok {
			r.Violation("split-series-in-no-shard", fmt.Sprintf("series %q of the batch is in none of the %d shards", k, cs.Count), cs)
		}
	}
	for k := range loc {
		if _, ok := batch[k]; !ok {
			r.Violation("split-series-not-in-batch", fmt.Sprintf("shard %d of %d holds series %q which the batch does not contain", loc[k], cs.Count, k), cs)
		}
	}
	if d := ref.Diff(union, batch, ref.DiffOpts{}); len(d) > 0 {
		kind := firstWords(d[0], 1)
		if strings.HasPrefix(d[0], "missing") || strings.HasPrefix(d[0], "unexpected") || strings.HasPrefix(d[0], "duplicate") {
			kind = "membership"
		}
		r.Violation("split-union-differs-from-batch:"+kind, fmt.Sprintf("Split(%d): %s", cs.Count, strings.Join(d, " | ")), cs)
	}
	// same (name, tagsKey) under different types must share the shard (the type is not part of the key)
	byKey := map[string]int{}
	for k, i := range loc {
		s := union[k]
		id := s.Name + "\x00" + s.TagsKey
		if j, ok := byKey[id]; ok && j != i {
			r.Violation("split-routing-depends-on-type", fmt.Sprintf("name %q tagsKey %q: shards %d and %d of %d for different metric types", s.Name, s.TagsKey, j, i, cs.Count), cs)
		}
		byKey[id] = i
	}

	r.Event("series_routed", len(loc))
	if sameNameDifferentTags(batch) {
		r.Nontrivial(fmt.Sprintf("split:t%04b:c%d", typeMask(batch), cs.Count))
		if r.WantSample() && cs.Count > 2 && len(batch) >= 4 && len(batch) <= 8 {
			assign := map[string]int{}
			for k, i := range loc {
				assign[k] = i
			}
			r.Sample(map[string]interface{}{"kind": "split", "count": cs.Count, "forwarded": cs.Forwarded, "series_to_shard": assign, "non_empty_shards": nonEmpty})
		}
	}
}

// ---------------------------------------------------------------------------------------------
// batch generator

type keyID struct {
	name   string
	tags   []string
	source string
}

type batchGen struct {
	rng  *rand.Rand
	ring []keyID // identities met before, re-used in later batches with fresh values / types
}

var optSets = []gen.MapOpts{
	{EmptyNames: true},
	{EmptyNames: true, Names: 40, TagPool: 10, MaxTags: 4, Sources: 5},
	{EmptyNames: true, Names: 2, TagPool: 3, MaxTags: 2, Sources: 2},
	{Names: 12, TagPool: 8, MaxTags: 5, Sources: 4, Exact: true},
	{EmptyNames: true, Names: 6, TagPool: 10, MaxTags: 3, Sources: 5, NonFinite: true},
}

func (g *batchGen) batch(maxN int) []ref.Datapoint {
	o := optSets[g.rng.Intn(len(optSets))]
	n := 1 + g.rng.Intn(maxN)
	dps := gen.Datapoints(g.rng, o, n)
	for i := range dps {
		d := &dps[i]
		// never a user tag that looks like the source marker (DESIGN §5)
		for j, t := range d.Tags {
			if strings.HasPrefix(t, "s:") {
				d.Tags[j] = "z" + t
			}
		}
		if len(g.ring) > 0 && g.rng.Intn(3) == 0 {
			k := g.ring[g.rng.Intn(len(g.ring))]
			d.Name, d.Source = k.name, k.source
			d.Tags = append([]string(nil), k.tags...)
			// a different tag order must not matter either
			g.rng.Shuffle(len(d.Tags), func(a, b int) { d.Tags[a], d.Tags[b] = d.Tags[b], d.Tags[a] })
		} else {
			k := keyID{d.Name, append([]string(nil), d.Tags...), d.Source}
			if len(g.ring) < 512 {
				g.ring = append(g.ring, k)
			} else {
				g.ring[g.rng.Intn(len(g.ring))] = k
			}
		}
	}
	return dps
}

func pickCounts(rng *rand.Rand, n int) []int {
	if n >= maxCount {
		out := make([]int, maxCount)
		for i := range out {
			out[i] = i + 1
		}
		return out
	}
	seen := map[int]bool{}
	var out []int
	for _, c := range []int{1, 2, maxCount} {
		if rng.Intn(3) == 0 && !seen[c] {
			seen[c] = true
			out = append(out, c)
		}
	}
	for len(out) < n {
		c := 1 + rng.Intn(maxCount)
		if !seen[c] {
			seen[c] = true
			out = append(out, c)
		}
	}
	return out
}

// ---------------------------------------------------------------------------------------------
// cross-process agreement

const childEnv = "VERIF_C06_CHILD_OUT"

// xprocKeys is a fixed list of (name, tags, source) — a function of nothing — routed by both processes.
func xprocKeys() []ref.Datapoint {
	rng := rand.New(rand.NewSource(60606))
	dps := gen.Datapoints(rng, gen.MapOpts{EmptyNames: true, Names: 30, TagPool: 10, MaxTags: 4, Sources: 5}, 300)
	for i := range dps {
		for j, t := range dps[i].Tags {
			if strings.HasPrefix(t, "s:") {
				dps[i].Tags[j] = "z" + t
			}
		}
	}
	return dps
}

// routeAll splits the fixed key list with every count and returns "count|type|name|tagsKey" -> shard.
func routeAll() map[string]int {
	out := map[string]int{}
	dps := xprocKeys()
	for count := 1; count <= maxCount; count++ {
		shards := gen.MapOf(dps).Split(count)
		for i, sh := range shards {
			for k := range ref.FromMap(sh) {
				out[fmt.Sprintf("%d|%s", count, k)] = i
			}
		}
	}
	return out
}

func childMain(path string) {
	b, _ := json.Marshal(routeAll())
	_ = os.WriteFile(path, b, 0o644)
}

func (c *checker) crossProcess(t *testing.T) {
	r := c.r
	dir := t.TempDir()
	path := filepath.Join(dir, "child-routes.json")
	r.Case("xproc re-exec of %s", os.Args[0])
	cmd := exec.Command(os.Args[0], "-test.run", "^TestCheck$")
	cmd.Env = append(os.Environ(), childEnv+"="+path)
	cmd.Dir = dir
	if out, err := cmd.CombinedOutput(); err != nil {
		r.Inconclusive("xproc-child-failed")
		t.Logf("child process failed: %v\n%s", err, out)
		return
	}
	b, err := os.ReadFile(path)
	var theirs map[string]int
	if err != nil || json.Unmarshal(b, &theirs) != nil {
		r.Inconclusive("xproc-child-output-unreadable")
		return
	}
	mine := routeAll()
	r.Eval(1)
	r.Event("xproc_keys_compared", len(mine))
	keys := make([]string, 0, len(mine))
	for k := range mine {
		keys = append(keys, k)
	}
	sort.Strings(keys)
	bad := 0
	for _, k := range keys {
		if v, ok := theirs[k]; !ok || v != mine[k] {
			bad++
			if bad == 1 {
				r.Violation("routing-differs-between-processes", fmt.Sprintf("key %q (count|type|name|tagsKey): shard %d in this process, %d (present=%v) in a second process running the same binary; the shard is not a function of (key, count) alone", k, mine[k], v, ok), map[string]interface{}{"kind": "xproc", "key": k})
			}
		}
	}
	if len(theirs) != len(mine) {
		r.Violation("routing-differs-between-processes", fmt.Sprintf("%d routed keys here, %d in the second process", len(mine), len(theirs)), map[string]interface{}{"kind": "xproc"})
	}
	r.Nontrivial("xproc:all-counts")
}

// ---------------------------------------------------------------------------------------------
// end to end: real BackendHandler, capturing aggregators

type captureAggr struct {
	id       int
	mu       sync.Mutex
	received []map[string]*ref.Series
	fwd      []bool
}

func (a *captureAggr) ReceiveMap(mm *gostatsd.MetricMap) {
	flat := ref.FromMap(mm)
	a.mu.Lock()
	a.received = append(a.received, flat)
	a.fwd = append(a.fwd, mm.Forwarded)
	a.mu.Unlock()
}
func (a *captureAggr) Flush(time.Duration)        {}
func (a *captureAggr) Process(statsd.ProcessFunc) {}
func (a *captureAggr) Reset()                     {}

func (c *checker) checkE2E(cs e2eCase) {
	r := c.r
	var (
		amu   sync.Mutex
		aggrs []*captureAggr
	)
	factory := statsd.AggregatorFactoryFunc(func() statsd.Aggregator {
		amu.Lock()
		defer amu.Unlock()
		a := &captureAggr{id: len(aggrs)}
		aggrs = append(aggrs, a)
		return a
	})
	bh := statsd.NewBackendHandler(nil, 4, cs.Workers, cs.Buffer, factory)
	ctx, cancel := context.WithCancel(context.Background())
	runDone := make(chan struct{})
	go func() {
		defer close(runDone)
		bh.Run(ctx)
	}()

	// the reference: everything dispatched, folded per dispatcher in dispatch order
	want := ref.NewFolded()
	maps := make([]*gostatsd.MetricMap, len(cs.Batches))
	for i, dps := range cs.Batches {
		maps[i] = gen.MapOf(dps)
		maps[i].Forwarded = cs.Forwarded
		want.AddMap(ref.FromMap(maps[i]))
	}
	var wg sync.WaitGroup
	for d := 0; d < cs.Dispatchers; d++ {
		wg.Add(1)
		go func(d int) {
			defer wg.Done()
			r.Guard("e2e-dispatch-panic", cs, func() {
				for i := d; i < len(maps); i += cs.Dispatchers {
					bh.DispatchMetricMap(context.Background(), maps[i])
				}
			})
		}(d)
	}
	dispatched := make(chan struct{})
	go func() { wg.Wait(); close(dispatched) }()
	select {
	case <-dispatched:
	case <-time.After(60 * time.Second):
		r.Inconclusive("e2e-dispatch-watchdog")
		cancel()
		return
	}
	// Run closes the queues on cancellation; the workers drain what is buffered and then stop.
	cancel()
	select {
	case <-runDone:
	case <-time.After(60 * time.Second):
		r.Inconclusive("e2e-run-watchdog")
		return
	}
	r.Eval(1)

	if len(aggrs) != cs.Workers {
		r.Violation("e2e-wrong-number-of-aggregators", fmt.Sprintf("%d workers configured, factory called %d times", cs.Workers, len(aggrs)), cs)
		return
	}
	got := ref.NewFolded()
	owner := map[string]int{} // name\0tagsKey -> aggregator
	nMaps := 0
	for _, a := range aggrs {
		a.mu.Lock()
		for i, flat := range a.received {
			nMaps++
			if a.fwd[i] != cs.Forwarded {
				r.Violation("e2e-forwarded-flag-changed", fmt.Sprintf("dispatched Forwarded=%v, aggregator %d received Forwarded=%v", cs.Forwarded, a.id, a.fwd[i]), cs)
			}
			if len(flat) == 0 {
				r.Event("e2e_empty_map_received", 1)
			}
			got.AddMap(flat)
			for _, s := range flat {
				id := s.Name + "\x00" + s.TagsKey
				if o, ok := owner[id]; ok && o != a.id {
					r.Violation("e2e-key-reached-two-aggregators", fmt.Sprintf("name %q tagsKey %q was received by aggregators %d and %d of %d", s.Name, s.TagsKey, o, a.id, cs.Workers), cs)
				}
				owner[id] = a.id
				if prev, bad, _ := c.e2e.observe(cs.Workers, s.Name, s.TagsKey, a.id); bad {
					r.Violation("e2e-aggregator-not-a-function-of-key", fmt.Sprintf("name %q tagsKey %q with %d aggregators: aggregator %d in an earlier handler of this process, %d now", s.Name, s.TagsKey, cs.Workers, prev, a.id), cs)
				}
			}
		}
		a.mu.Unlock()
	}
	// Conservation: what the aggregators received, folded, is what was dispatched, folded. With more
	// than one dispatcher the relative order of batches is free, so gauges are compared as a set.
	opts := ref.DiffOpts{IgnoreGauge: cs.Dispatchers > 1}
	if d := ref.Diff(got.Series, want.Series, opts); len(d) > 0 {
		kind := firstWords(d[0], 1)
		if strings.HasPrefix(d[0], "missing") || strings.HasPrefix(d[0], "unexpected") || strings.HasPrefix(d[0], "duplicate") {
			kind = "membership"
		}
		r.Violation("e2e-received-differs-from-dispatched:"+kind, fmt.Sprintf("%d workers: %s", cs.Workers, strings.Join(d, " | ")), cs)
	}
	if cs.Dispatchers > 1 {
		if d := want.CheckGauges(got.Series); len(d) > 0 {
			r.Violation("e2e-received-differs-from-dispatched:gauge", strings.Join(d, " | "), cs)
		}
	}
	r.Event("e2e_maps_dispatched", len(maps))
	r.Event("e2e_maps_received", nMaps)
	if sameNameDifferentTags(want.Series) {
		r.Nontrivial(fmt.Sprintf("e2e:t%04b:w%d", typeMask(want.Series), cs.Workers))
		if r.WantSample() && cs.Workers > 1 && len(owner) <= 10 {
			o := map[string]int{}
			for k, v := range owner {
				o[strings.Replace(k, "\x00", "|", 1)] = v
			}
			r.Sample(map[string]interface{}{"kind": "e2e", "workers": cs.Workers, "buffer": cs.Buffer, "batches": len(cs.Batches), "key_to_aggregator": o})
		}
	}
}

// ---------------------------------------------------------------------------------------------

func TestCheck(t *testing.T) {
	if p := os.Getenv(childEnv); p != "" {
		childMain(p)
		return
	}
	r := mon.Start(t, "C06")
	defer r.Finish()
	r.Rule("cases: (split) a random batch (1..40 datapoints of all four types, empty names/tags/sources included, one third of the identities re-used from earlier batches with new values, types and tag order) is turned into a MetricMap and Split with 8 (quick) or all 64 (thorough) shard counts from 1..64; every split is checked for exactly-one-shard membership, union == batch (values, tags, source, timestamp, Forwarded) and against a process-wide routing table (count, name, tagsKey) -> shard; (xproc) a fixed list of 300 identities is routed for all 64 counts here and in a second process and compared; (e2e) batches dispatched through a real BackendHandler (1..16 workers, queue 0..4, 1..3 dispatchers) with capturing aggregators: key -> aggregator is a function, nothing lost or duplicated. Non-trivial: the batch holds at least two series with the same name and different tag keys; distinct by (kind, set of metric types present, shard count).")
	r.Assume("ref.FromMap (harness) flattens a MetricMap faithfully; MetricMap.Receive is used to build the input batches")
	c := &checker{r: r, split: newRoutingTable(400000), e2e: newRoutingTable(200000)}

	if p := r.ReplayPayload(); p != nil {
		replay(t, c, p)
		return
	}

	rng := r.Rand("c06")
	g := &batchGen{rng: rng}
	nMaps := r.N(2400, 250000)
	perMap := r.Pick(8, maxCount)
	for i := 0; i < nMaps; i++ {
		dps := g.batch(40)
		fwd := rng.Intn(2) == 0
		for _, count := range pickCounts(rng, perMap) {
			cs := splitCase{Kind: "split", Datapoints: dps, Forwarded: fwd, Count: count}
			if i%64 == 0 {
				r.Case("split count=%d fwd=%v n=%d first=%+v", count, fwd, len(dps), dps[0])
			}
			c.checkSplit(cs)
		}
	}
	r.Extra("resplit_observations", c.resplt)

	nE2E := r.N(240, 30000)
	for i := 0; i < nE2E; i++ {
		cs := e2eCase{Kind: "e2e", Forwarded: rng.Intn(2) == 0, Workers: 1 + rng.Intn(16), Buffer: rng.Intn(5), Dispatchers: 1 + rng.Intn(3)}
		if rng.Intn(6) == 0 {
			cs.Workers = 1 + rng.Intn(maxCount)
		}
		nb := 1 + rng.Intn(8)
		for b := 0; b < nb; b++ {
			cs.Batches = append(cs.Batches, g.batch(12))
		}
		r.Case("e2e workers=%d buffer=%d dispatchers=%d batches=%d", cs.Workers, cs.Buffer, cs.Dispatchers, nb)
		c.checkE2E(cs)
	}

	if s, _ := r.Shard(); s == 0 {
		c.crossProcess(t)
	}
}

func replay(t *testing.T, c *checker, p []byte) {
	var probe struct {
		Kind string `json:"kind"`
	}
	if mon.ReplayCase(p, &probe) == nil {
		t.Skip("no case in replay file")
	}
	switch probe.Kind {
	case "split":
		var cs splitCase
		mon.ReplayCase(p, &cs)
		// twice: the second split of the same key set must agree with the first through the routing table
		c.checkSplit(cs)
		c.checkSplit(cs)
	case "e2e":
		var cs e2eCase
		mon.ReplayCase(p, &cs)
		c.checkE2E(cs)
		c.checkE2E(cs)
	case "xproc":
		c.crossProcess(t)
	default:
		t.Skip("unknown case kind")
	}
	c.r.Nontrivial("replay-a")
	c.r.Nontrivial("replay-b")
}
