//go:build verif

package c06

// Server phase: the partition observed at the aggregators of a real server.
//
// statsd.Server.RunWithCustomSocket (standalone mode, 1..9 workers including the non-powers of two) is run
// in process with a fake cloud provider cache whose instance tags overlap the tags clients spell out, an
// optional static tag, and both ingestion paths: statsd lines in UDP datagrams on a scripted PacketConn, and
// protobuf RawMessageV2 bodies on /v2/raw of an http server with enable-ingestion, in which the sender chooses
// the spelling of its own map keys (permuted tag order, duplicate tags, keys unrelated to the Tags field).
// The same series - (type, name, tag SET, source) after the documented pipeline: cloud provider, static tags -
// is sent under several spellings over both paths and in two rounds.
//
// The flusher hands every aggregator's map to the backend separately, on the worker's goroutine, once per
// flush; the aggregator's map object identifies the shard. Oracle on what the capturing backend is handed:
//   - in one flush every series identity is reported by exactly one aggregator, under exactly one key;
//   - across flushes a series stays with its aggregator;
//   - every series sent is reported, and the counter totals over all flushes are what was sent.

import (
	"bytes"
	"context"
	"errors"
	"fmt"
	"io"
	"math/rand"
	"net"
	"net/http"
	"os"
	"runtime"
	"sort"
	"strconv"
	"strings"
	"sync"
	"sync/atomic"
	"time"

	"github.com/sirupsen/logrus"
	"github.com/spf13/viper"
	"google.golang.org/protobuf/proto"

	"github.com/atlassian/gostatsd"
	"github.com/atlassian/gostatsd/pb"
	"github.com/atlassian/gostatsd/pkg/statsd"

	"verif/mon"
	"verif/ref"
)

const srvWatchdog = 30 * time.Second

// ---------------------------------------------------------------------------------------------
// fakes (same scaffolding as the C10 server phase; copied, not shared)

type srvPkt struct {
	msg  []byte
	addr net.Addr
}

type srvConn struct {
	ch     chan srvPkt
	closed chan struct{}
	once   sync.Once
}

func newSrvConn() *srvConn { return &srvConn{ch: make(chan srvPkt), closed: make(chan struct{})} }
func (c *srvConn) ReadFrom(b []byte) (int, net.Addr, error) {
	select {
	case p := <-c.ch:
		return copy(b, p.msg), p.addr, nil
	case <-c.closed:
		return 0, nil, errors.New("use of closed network connection")
	}
}
func (c *srvConn) WriteTo([]byte, net.Addr) (int, error) { return 0, errors.New("not supported") }
func (c *srvConn) Close() error                          { c.once.Do(func() { close(c.closed) }); return nil }
func (c *srvConn) LocalAddr() net.Addr                   { return &net.UDPAddr{IP: net.IPv4(127, 0, 0, 1), Port: 8125} }
func (c *srvConn) SetDeadline(time.Time) error           { return nil }
func (c *srvConn) SetReadDeadline(time.Time) error       { return nil }
func (c *srvConn) SetWriteDeadline(time.Time) error      { return nil }
func (c *srvConn) push(ip string, msg string) bool {
	select {
	case c.ch <- srvPkt{msg: []byte(msg), addr: &net.UDPAddr{IP: net.ParseIP(ip), Port: 40000}}:
		return true
	case <-c.closed:
		return false
	case <-time.After(srvWatchdog):
		return false
	}
}

// srvCall is one SendMetricsAsync: the map of one aggregator in one flush.
type srvCall struct {
	shard uintptr // identity of the aggregator's map object
	flat  map[string]*ref.Series
	group int // the flush it belongs to, see srvBackend
}

type srvPending struct {
	cb    gostatsd.SendCallback
	data  bool
	group int
}

// srvBackend captures every hand-over synchronously and answers the callbacks from a goroutine of its own,
// following a script: a flush hands over one map per aggregator and waits for all callbacks, so the backend
// waits for all of them, then answers the whole flush - at once, after the harness has sent more traffic
// ("hold"), and/or with an error for every other callback ("err").
//
// Flush attribution: a hand-over that arrives while callbacks of the current group have not been invoked yet,
// or from inside a callback invocation (same goroutine), belongs to the current group; otherwise it opens the
// next one (the flusher cannot start a flush before every callback of the previous one has been invoked).
type srvBackend struct {
	mu         sync.Mutex
	calls      []srvCall
	pending    []srvPending
	group      int
	open       bool
	invoking   uint64
	workers    int
	script     []string
	dataGroups int
	nHeld      int
	nErrors    int
	holding    atomic.Bool
	draining   atomic.Bool
	releaseCh  chan struct{}
	wake       chan struct{}
	n          atomic.Int64
}

func newSrvBackend(workers int, script []string) *srvBackend {
	return &srvBackend{workers: workers, script: script, releaseCh: make(chan struct{}, 1), wake: make(chan struct{}, 1)}
}

func goid() uint64 {
	var buf [64]byte
	f := strings.Fields(string(buf[:runtime.Stack(buf[:], false)]))
	if len(f) < 2 {
		return 0
	}
	id, _ := strconv.ParseUint(f[1], 10, 64)
	return id
}

func hasData(flat map[string]*ref.Series) bool {
	for _, s := range flat {
		if s.Counter != 0 || len(s.Values) > 0 || len(s.Members) > 0 {
			return true
		}
	}
	return false
}

func (b *srvBackend) Name() string                                   { return "c06-capture" }
func (b *srvBackend) SendEvent(context.Context, *gostatsd.Event) error { return nil }
func (b *srvBackend) SendMetricsAsync(_ context.Context, mm *gostatsd.MetricMap, cb gostatsd.SendCallback) {
	flat := ref.FromMap(mm) // synchronously: the map belongs to the aggregator again when this returns
	gid := goid()
	b.mu.Lock()
	if !(b.open && (len(b.pending) > 0 || (b.invoking != 0 && b.invoking == gid))) {
		b.group++
		b.open = true
	}
	b.calls = append(b.calls, srvCall{shard: mapIdentity(mm), flat: flat, group: b.group})
	b.pending = append(b.pending, srvPending{cb: cb, data: hasData(flat), group: b.group})
	b.mu.Unlock()
	b.n.Add(1) // data first, then the counter a waiter polls
	select {
	case b.wake <- struct{}{}:
	default:
	}
}

func (b *srvBackend) release() {
	select {
	case b.releaseCh <- struct{}{}:
	default:
	}
}

// run answers the callbacks until stop is closed.
func (b *srvBackend) run(stop <-chan struct{}) {
	me := goid()
	invoke := func(fail bool) {
		b.mu.Lock()
		p := b.pending[0]
		b.pending = b.pending[1:]
		b.invoking = me
		if fail {
			b.nErrors++
		}
		b.mu.Unlock()
		if fail {
			p.cb([]error{errors.New("scripted backend failure")})
		} else {
			p.cb(nil)
		}
		b.mu.Lock()
		b.invoking = 0
		b.mu.Unlock()
	}
	for {
		select {
		case <-stop:
			return
		case <-b.wake:
		}
		for {
			b.mu.Lock()
			n := len(b.pending)
			b.mu.Unlock()
			if n == 0 {
				break
			}
			// one map per aggregator: wait for the whole flush (not for ever: a flush may be short)
			mon.WaitUntil(2*time.Second, func() bool {
				b.mu.Lock()
				defer b.mu.Unlock()
				return len(b.pending) >= b.workers || b.draining.Load()
			})
			b.mu.Lock()
			batch, grp, data := len(b.pending), b.pending[0].group, false
			for _, p := range b.pending {
				data = data || p.data
			}
			action := "ok"
			if data && !b.draining.Load() {
				if b.dataGroups < len(b.script) {
					action = b.script[b.dataGroups]
				}
				b.dataGroups++
			}
			if strings.Contains(action, "hold") {
				b.nHeld++
			}
			b.mu.Unlock()
			if strings.Contains(action, "hold") {
				b.holding.Store(true)
				select {
				case <-b.releaseCh:
				case <-time.After(20 * time.Second):
				}
				b.holding.Store(false)
			}
			for i := 0; i < batch; i++ {
				invoke(strings.Contains(action, "err") && i%2 == 0)
			}
			// hand-overs made from inside those callbacks belong to the same flush: answered at once
			for {
				b.mu.Lock()
				more := len(b.pending) > 0 && b.pending[0].group == grp
				b.mu.Unlock()
				if !more {
					break
				}
				invoke(false)
			}
			b.mu.Lock()
			if len(b.pending) == 0 {
				b.open = false
			}
			b.mu.Unlock()
		}
	}
}

func (b *srvBackend) snapshot() []srvCall {
	b.mu.Lock()
	defer b.mu.Unlock()
	return append([]srvCall(nil), b.calls...)
}

// mapIdentity: an aggregator keeps one MetricMap object for its whole life.
func mapIdentity(mm *gostatsd.MetricMap) uintptr {
	p, _ := strconv.ParseUint(strings.TrimPrefix(fmt.Sprintf("%p", mm), "0x"), 16, 64)
	return uintptr(p)
}

type srvSource struct {
	Addr  string   `json:"addr"`
	Mode  string   `json:"mode"` // "hit" | "miss"
	Found bool     `json:"found"`
	ID    string   `json:"id"`
	Tags  []string `json:"tags"`
}

type srvCache struct {
	mu     sync.Mutex
	known  map[gostatsd.Source]*gostatsd.Instance
	answer map[gostatsd.Source]*gostatsd.Instance
	sink   chan gostatsd.Source
	info   chan gostatsd.InstanceInfo
}

func newSrvCache(srcs []srvSource) *srvCache {
	c := &srvCache{known: map[gostatsd.Source]*gostatsd.Instance{}, answer: map[gostatsd.Source]*gostatsd.Instance{}, sink: make(chan gostatsd.Source, 64), info: make(chan gostatsd.InstanceInfo)}
	for _, s := range srcs {
		var inst *gostatsd.Instance
		if s.Found {
			inst = &gostatsd.Instance{ID: gostatsd.Source(s.ID), Tags: append(gostatsd.Tags{}, s.Tags...)}
		}
		c.answer[gostatsd.Source(s.Addr)] = inst
		if s.Mode == "hit" {
			c.known[gostatsd.Source(s.Addr)] = inst
		}
	}
	return c
}
func (c *srvCache) Peek(ip gostatsd.Source) (*gostatsd.Instance, bool) {
	c.mu.Lock()
	defer c.mu.Unlock()
	inst, ok := c.known[ip]
	return inst, ok
}
func (c *srvCache) IpSink() chan<- gostatsd.Source           { return c.sink }
func (c *srvCache) InfoSource() <-chan gostatsd.InstanceInfo { return c.info }
func (c *srvCache) EstimatedTags() int                       { return 2 }
func (c *srvCache) run(ctx context.Context) {
	for {
		select {
		case <-ctx.Done():
			return
		case ip := <-c.sink:
			c.mu.Lock()
			inst := c.answer[ip]
			c.known[ip] = inst
			c.mu.Unlock()
			select {
			case c.info <- gostatsd.InstanceInfo{IP: ip, Instance: inst}:
			case <-ctx.Done():
				return
			}
		}
	}
}

// ---------------------------------------------------------------------------------------------
// the case

// srvPoint is one datapoint as a client spells it.
type srvPoint struct {
	Path  string   `json:"path"` // "udp" | "http"
	Type  int      `json:"type"`
	Name  string   `json:"name"`
	Tags  []string `json:"tags"` // as spelled: any order, duplicates
	Addr  string   `json:"addr"` // sender address (udp) / hostname field (http)
	Value int      `json:"value"`
	Key   string   `json:"key,omitempty"` // http: the inner map key the sender chose
}

type srvCase struct {
	Kind    string       `json:"kind"` // "server"
	Workers int          `json:"workers"`
	Parsers int          `json:"parsers"`
	Cloud   bool         `json:"cloud"`
	Static  []string     `json:"static"`
	Sources []srvSource  `json:"sources"`
	Rounds  [][]srvPoint `json:"rounds"`
	// Script: what the backend does with the successive flushes that carry data: "ok", "hold" (callbacks kept
	// until the harness has sent the next round), "err" (every other callback reports an error), "hold+err".
	Script []string `json:"script"`
}

func (sc *srvCase) source(addr string) *srvSource {
	for i := range sc.Sources {
		if sc.Sources[i].Addr == addr {
			return &sc.Sources[i]
		}
	}
	return nil
}

// identity: the series a datapoint belongs to after the documented pipeline (cloud provider, static tags).
func (sc *srvCase) identity(p srvPoint) string {
	tags := append([]string{}, p.Tags...)
	src := p.Addr
	if sc.Cloud {
		if s := sc.source(p.Addr); s != nil && s.Found {
			tags = append(tags, s.Tags...)
			src = s.ID
		}
	}
	return fmt.Sprintf("%d|%s|%s|%s", p.Type, p.Name, strings.Join(tagSet(tags, sc.Static), ","), src)
}

func seriesIdentity(s *ref.Series) string {
	return fmt.Sprintf("%d|%s|%s|%s", s.Type, s.Name, strings.Join(tagSet(s.Tags, nil), ","), s.Source)
}

func srvLine(p srvPoint) string {
	t := map[int]string{1: "c", 2: "ms", 3: "g", 4: "s"}[p.Type]
	line := p.Name + ":" + strconv.Itoa(p.Value) + "|" + t
	if len(p.Tags) > 0 {
		line += "|#" + strings.Join(p.Tags, ",")
	}
	return line
}

// srvRaw builds the body a forwarding sender would post, with the sender's own keys.
func srvRaw(points []srvPoint) *pb.RawMessageV2 {
	m := &pb.RawMessageV2{Counters: map[string]*pb.CounterTagV2{}, Gauges: map[string]*pb.GaugeTagV2{}, Sets: map[string]*pb.SetTagV2{}, Timers: map[string]*pb.TimerTagV2{}}
	for _, p := range points {
		tags := append([]string{}, p.Tags...)
		switch p.Type {
		case 1:
			if m.Counters[p.Name] == nil {
				m.Counters[p.Name] = &pb.CounterTagV2{TagMap: map[string]*pb.RawCounterV2{}}
			}
			c := m.Counters[p.Name].TagMap[p.Key]
			if c == nil {
				c = &pb.RawCounterV2{Tags: tags, Hostname: p.Addr}
				m.Counters[p.Name].TagMap[p.Key] = c
			}
			c.Value += int64(p.Value)
		case 2:
			if m.Timers[p.Name] == nil {
				m.Timers[p.Name] = &pb.TimerTagV2{TagMap: map[string]*pb.RawTimerV2{}}
			}
			t := m.Timers[p.Name].TagMap[p.Key]
			if t == nil {
				t = &pb.RawTimerV2{Tags: tags, Hostname: p.Addr}
				m.Timers[p.Name].TagMap[p.Key] = t
			}
			t.Values = append(t.Values, float64(p.Value))
			t.SampleCount++
		case 3:
			if m.Gauges[p.Name] == nil {
				m.Gauges[p.Name] = &pb.GaugeTagV2{TagMap: map[string]*pb.RawGaugeV2{}}
			}
			m.Gauges[p.Name].TagMap[p.Key] = &pb.RawGaugeV2{Tags: tags, Hostname: p.Addr, Value: float64(p.Value)}
		default:
			if m.Sets[p.Name] == nil {
				m.Sets[p.Name] = &pb.SetTagV2{TagMap: map[string]*pb.RawSetV2{}}
			}
			s := m.Sets[p.Name].TagMap[p.Key]
			if s == nil {
				s = &pb.RawSetV2{Tags: tags, Hostname: p.Addr}
				m.Sets[p.Name].TagMap[p.Key] = s
			}
			s.Values = append(s.Values, strconv.Itoa(p.Value))
		}
	}
	return m
}


const (
	srvOK = iota
	srvInconclusive
	srvMissing
	srvCollision // the ingestion port was taken by somebody else: nothing was sent, try another port
)

type srvWant struct {
	typ     int
	counter int64           // total sent (counters)
	vals    map[float64]int // timer values sent (unique per datapoint)
	members map[string]bool // set members sent
}

func (w *srvWant) add(p srvPoint) {
	switch p.Type {
	case 1:
		w.counter += int64(p.Value)
	case 2:
		w.vals[float64(p.Value)]++
	case 4:
		w.members[strconv.Itoa(p.Value)] = true
	}
}

func wantOf(sc *srvCase, rounds [][]srvPoint) map[string]*srvWant {
	want := map[string]*srvWant{}
	for _, round := range rounds {
		for _, p := range round {
			id := sc.identity(p)
			if want[id] == nil {
				want[id] = &srvWant{typ: p.Type, vals: map[float64]int{}, members: map[string]bool{}}
			}
			want[id].add(p)
		}
	}
	return want
}

// srvReported accumulates what the aggregators handed over, per series identity.
type srvReported struct {
	present map[string]bool
	counter map[string]int64
	vals    map[string]map[float64]int
	members map[string]map[string]bool
}

func reportedOf(calls []srvCall) *srvReported {
	rp := &srvReported{present: map[string]bool{}, counter: map[string]int64{}, vals: map[string]map[float64]int{}, members: map[string]map[string]bool{}}
	for _, call := range calls {
		for _, s := range call.flat {
			id := seriesIdentity(s)
			rp.present[id] = true
			rp.counter[id] += s.Counter
			for _, v := range s.Values {
				if rp.vals[id] == nil {
					rp.vals[id] = map[float64]int{}
				}
				rp.vals[id][v]++
			}
			for _, m := range s.Members {
				if rp.members[id] == nil {
					rp.members[id] = map[string]bool{}
				}
				rp.members[id][m] = true
			}
		}
	}
	return rp
}

// short lists the identities of want that have not been reported completely yet.
func (rp *srvReported) short(want map[string]*srvWant) []string {
	var out []string
	for id, w := range want {
		ok := rp.present[id] && rp.counter[id] >= w.counter
		for v := range w.vals {
			ok = ok && rp.vals[id][v] > 0
		}
		for m := range w.members {
			ok = ok && rp.members[id][m]
		}
		if !ok {
			out = append(out, id)
		}
	}
	sort.Strings(out)
	return out
}

// runSrv plays the case once: (status, reason, calls, identities still unreported).
func (c *checker) runSrv(sc *srvCase) (int, string, []srvCall, []string) {
	for attempt := 0; attempt < 5; attempt++ {
		st, why, calls, miss := c.runSrvOnce(sc)
		if st != srvCollision {
			return st, why, calls, miss
		}
		c.r.Event("server_port_retry", 1)
	}
	return srvInconclusive, "no-port-for-the-ingestion-server", nil, nil
}

func (c *checker) runSrvOnce(sc *srvCase) (int, string, []srvCall, []string) {
	r := c.r
	port := pickPort()
	if port == 0 {
		return srvCollision, "", nil, nil
	}
	addr := "127.0.0.1:" + strconv.Itoa(port)
	failuresBefore := bindFailures.Load()
	v := viper.New()
	v.SetConfigType("toml")
	if err := v.ReadConfig(bytes.NewBufferString(fmt.Sprintf("http-servers=['ingest']\n\n[http.ingest]\naddress='%s'\nenable-ingestion=true\nenable-healthcheck=false\n", addr))); err != nil {
		return srvInconclusive, "config-text-unreadable", nil, nil
	}
	backend := newSrvBackend(sc.Workers, sc.Script)
	stopAnswering := make(chan struct{})
	go backend.run(stopAnswering)
	defer close(stopAnswering)
	srv := &statsd.Server{
		Backends: []gostatsd.Backend{backend}, DefaultTags: append(gostatsd.Tags{}, sc.Static...),
		FlushInterval: 20 * time.Millisecond, MaxReaders: 1, MaxParsers: sc.Parsers, MaxWorkers: sc.Workers, MaxQueueSize: 64, MaxConcurrentEvents: 1,
		EstimatedTags: 4, StatserType: gostatsd.StatserNull, ReceiveBatchSize: 1, ServerMode: "standalone", DisableInternalEvents: true, Viper: v,
	}
	cacheCtx, stopCache := context.WithCancel(context.Background())
	defer stopCache()
	if sc.Cloud {
		cache := newSrvCache(sc.Sources)
		go cache.run(cacheCtx)
		srv.CachedInstances = cache
	}
	conn := newSrvConn()
	ctx, cancel := context.WithCancel(context.Background())
	runDone := make(chan struct{})
	go func() {
		defer close(runDone)
		r.Guard("server-panic", sc, func() {
			_ = srv.RunWithCustomSocket(ctx, func() (net.PacketConn, error) { return conn, nil })
		})
	}()
	stop := func() bool {
		backend.draining.Store(true) // every callback is answered from now on, so that the flusher can finish
		backend.release()
		cancel()
		select {
		case <-runDone:
			return true
		case <-time.After(srvWatchdog):
			return false
		}
	}
	// no traffic before this process is known to own the ingestion port (another process may have bound it)
	if !awaitOwnListener(port, failuresBefore, 20*time.Second) {
		stop()
		return srvCollision, "", nil, nil
	}
	client := &http.Client{Timeout: 10 * time.Second}
	defer client.CloseIdleConnections()

	sent := [][]srvPoint{}
	want := map[string]*srvWant{}
	unreported := func() []string { return reportedOf(backend.snapshot()).short(want) }
	// a reported series that nobody sent decides the run; what it stands in for need not be waited for
	foreign := func() bool {
		for _, call := range backend.snapshot() {
			for _, s := range call.flat {
				if _, ok := want[seriesIdentity(s)]; !ok {
					return true
				}
			}
		}
		return false
	}
	watchdog := srvWatchdog
	if c.srvMissing >= 2 {
		watchdog = 3 * time.Second
	}
	// sendRound returns "" or the reason why the run has to be abandoned
	sendRound := func(round []srvPoint) string {
		sent = append(sent, round)
		want = wantOf(sc, sent)
		for i := 0; i < len(round); {
			p := round[i]
			if p.Path == "udp" {
				// consecutive lines of one sender share a datagram
				j := i + 1
				lines := []string{srvLine(p)}
				for j < len(round) && j < i+3 && round[j].Path == "udp" && round[j].Addr == p.Addr {
					lines = append(lines, srvLine(round[j]))
					j++
				}
				if !conn.push(p.Addr, strings.Join(lines, "\n")) {
					return "udp-reader-did-not-take-datagram"
				}
				i = j
				continue
			}
			// http: consecutive http points go into one body unless the key is taken by another spelling
			body := []srvPoint{p}
			i++
			for i < len(round) && round[i].Path == "http" && len(body) < 4 {
				q := round[i]
				clash := false
				for _, b := range body {
					if b.Name == q.Name && b.Type == q.Type && b.Key == q.Key && (strings.Join(b.Tags, ",") != strings.Join(q.Tags, ",") || b.Addr != q.Addr) {
						clash = true
					}
				}
				if clash {
					break
				}
				body = append(body, q)
				i++
			}
			raw, err := proto.Marshal(srvRaw(body))
			if err != nil {
				return "protobuf-marshal"
			}
			status := 0
			ok := mon.WaitUntil(srvWatchdog, func() bool {
				resp, err := client.Post("http://"+addr+"/v2/raw", "application/x-protobuf", bytes.NewReader(raw))
				if err != nil {
					return false // not listening yet
				}
				_, _ = io.Copy(io.Discard, resp.Body)
				_ = resp.Body.Close()
				status = resp.StatusCode
				return true
			})
			if !ok || status != http.StatusAccepted {
				return "http-ingestion-not-reachable"
			}
		}
		return ""
	}
	overlapped := 0
	for ri := 0; ri < len(sc.Rounds); {
		if why := sendRound(sc.Rounds[ri]); why != "" {
			stop()
			return srvInconclusive, why, nil, nil
		}
		ri++
		// the round is over when everything sent so far has been reported; while the backend holds the callbacks
		// of a flush, the next round is sent (ingestion overlapping a flush that waits for its backend)
		for {
			done := mon.WaitUntil(watchdog, func() bool { return backend.holding.Load() || len(unreported()) == 0 || foreign() })
			if backend.holding.Load() {
				if ri < len(sc.Rounds) {
					if why := sendRound(sc.Rounds[ri]); why != "" {
						stop()
						return srvInconclusive, why, nil, nil
					}
					ri++
					overlapped++
					// exposure, not synchronisation: the datagrams just sent get the time to reach the aggregators
					// before the flush is let go; conservation holds whether they do or not
					mon.WaitUntil(2*time.Millisecond, func() bool { return false })
				}
				backend.release()
				mon.WaitUntil(srvWatchdog, func() bool { return !backend.holding.Load() })
				continue
			}
			if !done {
				miss := unreported()
				stop()
				return srvMissing, "", backend.snapshot(), miss
			}
			break
		}
	}
	r.Event("server_rounds_sent_while_a_flush_was_held", overlapped)
	// a few more complete flushes, so that the last flushes examined hold every series
	n0 := backend.n.Load()
	mon.WaitUntil(5*time.Second, func() bool { return backend.n.Load() >= n0+int64(3*sc.Workers) })
	if !stop() {
		return srvInconclusive, "server-did-not-stop", nil, nil
	}
	backend.mu.Lock()
	r.Event("server_flushes_held", backend.nHeld)
	r.Event("server_callbacks_answered_with_error", backend.nErrors)
	backend.mu.Unlock()
	return srvOK, "", backend.snapshot(), nil
}

func (c *checker) serverCase(sc *srvCase) {
	r := c.r
	status, why, calls, miss := c.runSrv(sc)
	if status == srvMissing && c.srvMissing < 2 {
		r.Event("server_unreported_retry", 1)
		var st2 int
		st2, why, calls, miss = c.runSrv(sc)
		if st2 == srvOK {
			r.Inconclusive("server-series-late-once")
		}
		status = st2
	}
	if status == srvInconclusive {
		r.Inconclusive("server:" + why)
		return
	}
	r.Eval(1)
	r.Event("server_cases", 1)
	want := wantOf(sc, sc.Rounds)
	rp := reportedOf(calls)
	if status == srvMissing {
		c.srvMissing++
		absent := false
		for _, id := range miss {
			absent = absent || !rp.present[id]
		}
		sig := "server-reported-totals-short-of-what-was-sent"
		if absent {
			sig = "server-series-never-reported-by-an-aggregator"
		}
		r.Violation(sig, fmt.Sprintf("%d workers, cloud %v, backend script %q: after two runs of up to %v the aggregators had still not handed over everything sent for %q (counter totals, timer values, set members over all flushes)", sc.Workers, sc.Cloud, sc.Script, srvWatchdog, miss), sc)
	}
	spellings := map[string]map[string]bool{}
	for _, round := range sc.Rounds {
		for _, p := range round {
			id := sc.identity(p)
			if spellings[id] == nil {
				spellings[id] = map[string]bool{}
			}
			spellings[id][p.Path+":"+strings.Join(p.Tags, ",")+"/"+p.Key] = true
		}
	}

	// per flush (group of hand-overs, see srvBackend)
	type place struct {
		shard uintptr
		key   string
	}
	flushes := map[int]map[string]map[place]bool{}
	handed := map[int]map[uintptr]int{}
	owner := map[string]uintptr{}
	shards := map[uintptr]bool{}
	sawForeign := false
	for _, call := range calls {
		n := call.group
		shards[call.shard] = true
		if flushes[n] == nil {
			flushes[n] = map[string]map[place]bool{}
			handed[n] = map[uintptr]int{}
		}
		handed[n][call.shard]++
		if handed[n][call.shard] == 2 {
			r.Violation("server-aggregator-map-handed-to-backend-twice-in-one-flush", fmt.Sprintf("%d workers, backend script %q: in flush %d one aggregator's map was handed to the backend a second time before the flush was over (%d series in it): every series of that shard is reported twice in one flush", sc.Workers, sc.Script, n, len(call.flat)), sc)
		}
		keys := make([]string, 0, len(call.flat))
		for k := range call.flat {
			keys = append(keys, k)
		}
		sort.Strings(keys)
		for _, k := range keys {
			s := call.flat[k]
			id := seriesIdentity(s)
			if flushes[n][id] == nil {
				flushes[n][id] = map[place]bool{}
			}
			flushes[n][id][place{call.shard, s.TagsKey}] = true
			if prev, ok := owner[id]; ok && prev != call.shard {
				r.Violation("server-series-reported-by-different-aggregators-over-time", fmt.Sprintf("%d workers: series %q (type|name|tag set|source) was reported by one aggregator in an earlier flush and by another in flush %d (key %q)", sc.Workers, id, n, s.TagsKey), sc)
			}
			owner[id] = call.shard
			if _, ok := want[id]; !ok {
				sawForeign = true
				r.Violation("server-series-reported-that-nobody-sent", fmt.Sprintf("an aggregator reports %q under key %q; sent were %d series", id, s.TagsKey, len(want)), sc)
			}
		}
	}
	if len(shards) > sc.Workers {
		r.Violation("server-more-reporting-aggregators-than-workers", fmt.Sprintf("%d workers configured, %d distinct aggregator maps handed to the backend", sc.Workers, len(shards)), sc)
	}
	ns := make([]int, 0, len(flushes))
	for n := range flushes {
		ns = append(ns, n)
	}
	sort.Ints(ns)
	for _, n := range ns {
		if len(handed[n]) < sc.Workers {
			r.Event("server_flush_groups_with_fewer_maps_than_workers", 1)
		}
		ids := make([]string, 0, len(flushes[n]))
		for id := range flushes[n] {
			ids = append(ids, id)
		}
		sort.Strings(ids)
		for _, id := range ids {
			places := flushes[n][id]
			if len(places) < 2 {
				continue
			}
			as := map[uintptr]bool{}
			var keys []string
			for p := range places {
				as[p.shard] = true
				keys = append(keys, p.key)
			}
			sort.Strings(keys)
			sp := keysOf(spellings[id])
			if len(as) > 1 {
				r.Violation("server-series-reported-by-two-aggregators-in-one-flush", fmt.Sprintf("%d workers, cloud %v, static %q: in flush %d the series %q is reported by %d aggregators under the keys %q; it was sent as %q", sc.Workers, sc.Cloud, sc.Static, n, id, len(as), keys, sp), sc)
			} else {
				r.Violation("server-series-reported-twice-by-one-aggregator-in-one-flush", fmt.Sprintf("%d workers, cloud %v, static %q: in flush %d the series %q is reported under the keys %q of one aggregator; it was sent as %q", sc.Workers, sc.Cloud, sc.Static, n, id, keys, sp), sc)
			}
		}
	}
	// conservation per series over all flushes: what the shard was handed is what it reports
	if status == srvOK && !sawForeign { // with a foreign series the run was cut short
		wids := make([]string, 0, len(want))
		for id := range want {
			wids = append(wids, id)
		}
		sort.Strings(wids)
		for _, id := range wids {
			w := want[id]
			if !rp.present[id] {
				continue // a series nobody sent took its place; reported above
			}
			if w.typ == 1 && rp.counter[id] != w.counter {
				r.Violation("server-counter-total-differs-from-sent", fmt.Sprintf("backend script %q: series %q: %d sent, %d reported over all flushes and aggregators", sc.Script, id, w.counter, rp.counter[id]), sc)
			}
			if w.typ == 2 {
				for v, n := range rp.vals[id] {
					if n != w.vals[v] {
						r.Violation("server-timer-values-differ-from-sent", fmt.Sprintf("backend script %q: series %q: value %v was sent %d time(s) and reported %d time(s) over all flushes", sc.Script, id, v, w.vals[v], n), sc)
						break
					}
				}
			}
			if w.typ == 4 {
				for m := range rp.members[id] {
					if !w.members[m] {
						r.Violation("server-set-member-reported-that-nobody-sent", fmt.Sprintf("series %q: member %q", id, m), sc)
						break
					}
				}
			}
		}
	}
	respelled := 0
	for _, sp := range spellings {
		if len(sp) > 1 {
			respelled++
		}
	}
	hold, errs := false, false
	for _, a := range sc.Script {
		hold = hold || strings.Contains(a, "hold")
		errs = errs || strings.Contains(a, "err")
	}
	r.Event("server_flush_maps_handed_to_backend", len(calls))
	r.Event("server_series", len(want))
	r.Event("server_series_sent_under_several_spellings", respelled)
	if respelled > 0 {
		if respelled > 3 {
			respelled = 3
		}
		pow2 := sc.Workers&(sc.Workers-1) == 0
		r.Nontrivial(fmt.Sprintf("server|w%d|pow2=%v|cloud=%v|static=%d|respelled%d|hold=%v|err=%v", sc.Workers, pow2, sc.Cloud, len(sc.Static), respelled, hold, errs))
		if r.WantSample() && !c.srvSampled && sc.Cloud && sc.Workers > 2 && hold {
			c.srvSampled = true
			o := map[string][]string{}
			for id, sp := range spellings {
				o[id] = keysOf(sp)
			}
			r.Sample(map[string]interface{}{"kind": "server", "workers": sc.Workers, "cloud": sc.Cloud, "static": sc.Static, "sources": sc.Sources, "backend_script": sc.Script, "series_to_spellings(path:tags/key)": o, "flush_maps": len(calls)})
		}
	}
}

// ---------------------------------------------------------------------------------------------
// generator

var srvTagPool = []string{"env:prod", "service:0", "az:0", "region:us", "bare", "a:1"}

func genSrvCase(rng *rand.Rand) *srvCase {
	sc := &srvCase{Kind: "server", Workers: 1 + rng.Intn(9), Parsers: 1 + rng.Intn(2), Cloud: rng.Intn(4) != 0, Static: []string{}}
	if rng.Intn(3) == 0 {
		sc.Static = []string{[]string{"dc:x", "env:prod", "region:us"}[rng.Intn(3)]}
	}
	for i, n := 0, 1+rng.Intn(2); i < n; i++ {
		s := srvSource{Addr: fmt.Sprintf("10.6.0.%d", i+1), Mode: []string{"hit", "miss"}[rng.Intn(2)], Found: rng.Intn(5) != 0, ID: fmt.Sprintf("i-0abc%d", i), Tags: []string{}}
		for j, k := 0, 1+rng.Intn(2); j < k; j++ {
			s.Tags = append(s.Tags, srvTagPool[rng.Intn(len(srvTagPool))]) // what clients may spell out too
		}
		sc.Sources = append(sc.Sources, s)
	}
	// a few series, each met again and again under other spellings and over both paths
	type ident struct {
		typ  int
		name string
		tags []string // the client's own tags (a set)
		addr string
	}
	ids := make([]ident, 2+rng.Intn(4))
	for i := range ids {
		ids[i] = ident{typ: 1 + rng.Intn(4), name: fmt.Sprintf("c06.m%d", rng.Intn(3)), addr: sc.Sources[rng.Intn(len(sc.Sources))].Addr}
		for j, k := 0, rng.Intn(4); j < k; j++ {
			ids[i].tags = append(ids[i].tags, srvTagPool[rng.Intn(len(srvTagPool))])
		}
		ids[i].tags = tagSet(ids[i].tags, nil)
	}
	unique := 100
	for round, nRounds := 0, 2+rng.Intn(3); round < nRounds; round++ {
		var pts []srvPoint
		for i, n := 0, 3+rng.Intn(8); i < n; i++ {
			id := ids[rng.Intn(len(ids))]
			p := srvPoint{Path: []string{"udp", "http"}[rng.Intn(2)], Type: id.typ, Name: id.name, Addr: id.addr, Value: 1 + rng.Intn(9)}
			if p.Type == 2 || p.Type == 4 {
				unique++
				p.Value = unique // a timer value / set member names its datapoint
			}
			tags := append([]string{}, id.tags...)
			// what the provider (or the static configuration) adds anyway may or may not be spelled out by the client
			var extra []string
			if s := sc.source(id.addr); s != nil && s.Found && sc.Cloud {
				extra = append(extra, s.Tags...)
			}
			extra = append(extra, sc.Static...)
			for _, t := range extra {
				present := false
				for _, x := range tags {
					present = present || x == t
				}
				if present && rng.Intn(2) == 0 {
					var keep []string
					for _, x := range tags {
						if x != t {
							keep = append(keep, x)
						}
					}
					tags = keep
				} else if !present && rng.Intn(3) == 0 {
					tags = append(tags, t)
				}
			}
			for len(tags) > 0 && rng.Intn(4) == 0 {
				tags = append(tags, tags[rng.Intn(len(tags))])
			}
			rng.Shuffle(len(tags), func(a, b int) { tags[a], tags[b] = tags[b], tags[a] })
			p.Tags = tags
			if p.Path == "http" {
				switch rng.Intn(4) {
				case 0: // as a gostatsd forwarder renders it
					p.Key = ref.TagsKey(tags, p.Addr)
				case 1: // tags in the order given, not sorted
					p.Key = strings.Join(tags, ",") + ",s:" + p.Addr
				case 2: // another permutation
					q := append([]string{}, tags...)
					rng.Shuffle(len(q), func(a, b int) { q[a], q[b] = q[b], q[a] })
					p.Key = strings.Join(q, ",") + ",s:" + p.Addr
				default: // unrelated to the Tags field
					p.Key = fmt.Sprintf("k%d", rng.Intn(3))
				}
			}
			pts = append(pts, p)
		}
		sc.Rounds = append(sc.Rounds, pts)
	}
	// what the backend does with the flushes that carry data
	if rng.Intn(5) < 3 {
		for i, n := 0, 1+rng.Intn(3); i < n; i++ {
			sc.Script = append(sc.Script, []string{"hold", "err", "hold+err", "ok", "hold"}[rng.Intn(5)])
		}
	}
	return sc
}

func init() {
	logrus.SetOutput(io.Discard) // the server logs through the standard logger
	logrus.AddHook(bindHook{})
}
// ---------------------------------------------------------------------------------------------
// a port for the ingestion server that no other process can be talking to
//
// The server only takes an address string, so a port has to be chosen before it binds. Ports are taken from
// below the ephemeral range (other tests and outgoing connections use ":0"), and no traffic is sent until
// /proc shows that THIS process owns the listening socket; a bind failure is seen through a logrus hook.

var bindFailures atomic.Int64
var portCounter atomic.Int64

type bindHook struct{}

func (bindHook) Levels() []logrus.Level { return []logrus.Level{logrus.ErrorLevel} }
func (bindHook) Fire(e *logrus.Entry) error {
	if e.Message == "web server failed" {
		bindFailures.Add(1)
	}
	return nil
}

func pickPort() int {
	for i := 0; i < 50; i++ {
		x := uint64(os.Getpid())<<24 + uint64(portCounter.Add(1))
		x ^= x >> 30
		x *= 0xbf58476d1ce4e5b9
		x ^= x >> 27
		x *= 0x94d049bb133111eb
		x ^= x >> 31
		port := 10000 + int(x%20000)
		l, err := net.Listen("tcp", "127.0.0.1:"+strconv.Itoa(port))
		if err == nil {
			_ = l.Close()
			return port
		}
	}
	return 0
}

// ownsListener reports whether this process holds the socket listening on 127.0.0.1:port.
func ownsListener(port int) bool {
	b, err := os.ReadFile("/proc/net/tcp")
	if err != nil {
		return false
	}
	local := fmt.Sprintf("0100007F:%04X", port)
	inode := ""
	for _, line := range strings.Split(string(b), "\n") {
		f := strings.Fields(line)
		if len(f) > 9 && f[1] == local && f[3] == "0A" {
			inode = f[9]
		}
	}
	if inode == "" {
		return false
	}
	fds, err := os.ReadDir("/proc/self/fd")
	if err != nil {
		return false
	}
	for _, fd := range fds {
		if t, err := os.Readlink("/proc/self/fd/" + fd.Name()); err == nil && t == "socket:["+inode+"]" {
			return true
		}
	}
	return false
}

// awaitOwnListener: true once this process listens on the port; false on a bind failure or after the watchdog.
func awaitOwnListener(port int, failuresBefore int64, d time.Duration) bool {
	ok := false
	mon.WaitUntil(d, func() bool {
		if bindFailures.Load() != failuresBefore {
			return true
		}
		ok = ownsListener(port)
		return ok
	})
	return ok && bindFailures.Load() == failuresBefore
}

