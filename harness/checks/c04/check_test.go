//go:build verif

// C04 — flushing never crashes for any reachable aggregate, configuration or backend.
package c04

import (
	"context"
	"encoding/json"
	"fmt"
	"io"
	"math"
	"math/rand"
	"runtime/debug"
	"sort"
	"strconv"
	"strings"
	"sync/atomic"
	"testing"
	"time"

	"github.com/sirupsen/logrus"
	"github.com/spf13/viper"

	"github.com/atlassian/gostatsd"
	"github.com/atlassian/gostatsd/pkg/statsd"
	"github.com/atlassian/gostatsd/pkg/transport"

	"verif/mon"
)

const (
	tCounter = 1
	tTimer   = 2
	tGauge   = 3
	tSet     = 4

	baseTime         = int64(1_700_000_000) * int64(time.Second)
	callbackWatchdog = 60 * time.Second
)

// dpoint is one accepted datapoint. The value travels as text so that ±Inf survives JSON.
type dpoint struct {
	T int      `json:"t"`
	N string   `json:"n"`
	V string   `json:"v,omitempty"`
	R float64  `json:"r,omitempty"`
	G []string `json:"g,omitempty"`
	S string   `json:"s,omitempty"`
	M string   `json:"m,omitempty"`
}

type step struct {
	Op  string   `json:"op"` // merge | flush | advance
	DPs []dpoint `json:"dps,omitempty"`
	NS  int64    `json:"ns,omitempty"` // advance: amount; flush: flush interval
}

// acfg is the aggregator side of the start-up configuration.
type acfg struct {
	Percentiles []float64 `json:"percentiles"`
	Limit       uint32    `json:"histogram_limit"`
	ExpiryNS    [5]int64  `json:"expiry_ns"` // by type, [0] unused
}

// tcase is a complete, self-contained case.
type tcase struct {
	Agg      acfg   `json:"aggregator"`
	Backends bcfg   `json:"backends"`
	Steps    []step `json:"steps"`
	// Config, when set, replaces the standard backend set by ONE backend built from configuration text
	Config *cfgCase `json:"config,omitempty"`
	// CancelAtRequest k > 0: the endpoint holds every request; the flush context is cancelled when the
	// k-th request of the flush has arrived (k-1 were answered)
	CancelAtRequest int `json:"cancel_at_request,omitempty"`
}

// witness is what is written ahead of every SendMetricsAsync and attached to every violation: the
// case truncated to the flush being sent, and the backend variant about to receive it.
type witness struct {
	Backend string `json:"backend,omitempty"`
	Flush   int    `json:"flush_step"`
	Case    tcase  `json:"case"`
}

func (d dpoint) metric(ts int64) *gostatsd.Metric {
	v, _ := strconv.ParseFloat(d.V, 64)
	r := d.R
	if r == 0 {
		r = 1
	}
	return &gostatsd.Metric{Name: d.N, Type: gostatsd.MetricType(d.T), Value: v, Rate: r, StringValue: d.M,
		Tags: append(gostatsd.Tags(nil), d.G...), Source: gostatsd.Source(d.S), Timestamp: gostatsd.Nanotime(ts)}
}

// ---------------------------------------------------------------------------------------------
// environment: sinks + the backends of the current epoch

type env struct {
	r      *mon.Run
	sinks  *sinks
	pool   *transport.TransportPool
	logger logrus.FieldLogger
	cw     *cwMock

	cfg          bcfg
	lastAccepted bool // outcome of the last configureFromText
	ctx          context.Context
	cancel       context.CancelFunc
	backends     []backend
}

func newEnv(r *mon.Run) (*env, error) {
	logrus.SetOutput(io.Discard) // the stdout backend writes through the standard logger
	l := logrus.New()
	l.SetOutput(io.Discard)
	s, err := newSinks()
	if err != nil {
		return nil, err
	}
	return &env{r: r, sinks: s, logger: l, cw: &cwMock{}, pool: transport.NewTransportPool(l, viper.New())}, nil
}

func (e *env) configure(c bcfg) error {
	e.stop()
	e.cfg = c
	e.ctx, e.cancel = context.WithCancel(context.Background())
	bs, err := buildBackends(e.ctx, c, e.sinks, e.pool, e.logger, e.cw)
	if err != nil {
		e.cancel()
		return err
	}
	e.backends = bs
	e.r.Event("backend_sets_built", 1)
	return nil
}

func (e *env) stop() {
	if e.cancel != nil {
		e.cancel()
		e.cancel = nil
	}
	e.backends = nil
}

func (e *env) close() {
	e.stop()
	e.sinks.close()
}

type sendState struct {
	returned atomic.Bool
	called   atomic.Int64
	errs     atomic.Int64
	panicked bool
	panicVal interface{}
	stack    string
}

// send hands the map to one backend and waits for the synchronous phase to return and for the
// callback. It returns false when the backend set cannot be used any more (panic or watchdog).
func (e *env) send(b backend, mm *gostatsd.MetricMap, wit []byte) (ok bool) {
	e.r.Case("%s", wit)
	st := &sendState{}
	cb := func(errs []error) {
		n := 0
		for _, err := range errs {
			if err != nil {
				n++
			}
		}
		st.errs.Add(int64(n))
		st.called.Add(1)
	}
	go func() {
		defer func() {
			if p := recover(); p != nil {
				st.panicked, st.panicVal, st.stack = true, p, string(debug.Stack())
			}
			st.returned.Store(true)
		}()
		b.b.SendMetricsAsync(e.ctx, mm, cb)
	}()
	done := func() bool { return st.returned.Load() && (st.panicked || st.called.Load() > 0) }
	if !mon.WaitUntil(callbackWatchdog, done) {
		what := "callback"
		if !st.returned.Load() {
			what = "return"
		}
		e.r.Inconclusive("no-" + what + "-within-watchdog:" + b.variant)
		return false
	}
	if st.panicked {
		stack := st.stack
		if len(stack) > 3000 {
			stack = stack[:3000]
		}
		e.r.Violation("send-panic:"+b.variant+":"+mon.PanicSite(st.stack), fmt.Sprintf("SendMetricsAsync of %s panicked while building its payload: %v\n%s", b.variant, st.panicVal, stack), json.RawMessage(wit))
		return false
	}
	e.r.Eval(1)
	e.r.Event("callbacks", 1)
	if st.errs.Load() > 0 {
		e.r.Event("callbacks_with_errors", 1)
		e.r.Event("callback_errors:"+b.variant, 1)
	}
	return true
}

// ---------------------------------------------------------------------------------------------
// classification of what a flush showed (non-trivial classes)

func signPattern(p []float64) string {
	neg, zero, pos := false, false, false
	for _, x := range p {
		neg = neg || x < 0
		zero = zero || x == 0
		pos = pos || x > 0
	}
	s := ""
	if neg {
		s += "-"
	}
	if zero {
		s += "0"
	}
	if pos {
		s += "+"
	}
	if s == "" {
		s = "none"
	}
	return s
}

func limitClass(l uint32) string {
	if l == math.MaxUint32 {
		return "max"
	}
	return strconv.Itoa(int(l))
}

func classify(mm *gostatsd.MetricMap, a acfg) []string {
	set := map[string]struct{}{}
	sp := signPattern(a.Percentiles)
	mm.Timers.Each(func(_, _ string, t gostatsd.Timer) {
		n := len(t.Values)
		nc := "3+"
		if n < 3 {
			nc = strconv.Itoa(n)
		}
		if t.Histogram != nil {
			set[fmt.Sprintf("hist|n=%s|limit=%s|buckets=%d", nc, limitClass(a.Limit), minInt(len(t.Histogram), 3))] = struct{}{}
		} else {
			set[fmt.Sprintf("timer|pct=%s|n=%s", sp, nc)] = struct{}{}
		}
	})
	out := make([]string, 0, len(set))
	for k := range set {
		out = append(out, k)
	}
	sort.Strings(out)
	return out
}

func minInt(a, b int) int {
	if a < b {
		return a
	}
	return b
}

// ---------------------------------------------------------------------------------------------
// running one case

// run executes the case: every flush is handed to every backend of the current set, one at a time.
func (e *env) run(cs *tcase) {
	d := func(t int) time.Duration { return time.Duration(cs.Agg.ExpiryNS[t]) }
	agg := statsd.NewMetricAggregator(append([]float64(nil), cs.Agg.Percentiles...), d(tCounter), d(tGauge), d(tSet), d(tTimer), subtypes(cs.Backends.Disabled), cs.Agg.Limit)
	now := int64(0)
	agg.VerifSetNow(func() time.Time { return time.Unix(0, baseTime+now) })
	if cs.Config != nil {
		if !e.configureFromText(cs) {
			return
		}
		defer e.stop()
	}
	e.r.Event("histories", 1)
	for i, s := range cs.Steps {
		switch s.Op {
		case "advance":
			now += s.NS
		case "merge":
			mm := gostatsd.NewMetricMap(false)
			for _, dp := range s.DPs {
				mm.Receive(dp.metric(baseTime + now))
			}
			agg.ReceiveMap(mm)
			e.r.Event("batches", 1)
		case "flush":
			prefix := witness{Flush: i, Case: tcase{Agg: cs.Agg, Backends: cs.Backends, Steps: cs.Steps[:i+1], Config: cs.Config, CancelAtRequest: cs.CancelAtRequest}}
			pj, _ := json.Marshal(&prefix)
			e.r.Case("%s", pj)
			if e.r.Guard("aggregator-panic:flush", json.RawMessage(pj), func() { agg.Flush(time.Duration(s.NS)) }) {
				return // the aggregate is half computed; the flusher goroutine of a server would be dead
			}
			e.r.Event("flushes", 1)
			healthy := true
			agg.Process(func(mm *gostatsd.MetricMap) {
				classes := classify(mm, cs.Agg)
				for _, c := range classes {
					e.r.Event("flushed:"+strings.SplitN(c, "|", 2)[0], 1)
				}
				for _, b := range e.backends {
					prefix.Backend = b.variant
					wj, _ := json.Marshal(&prefix)
					if cs.CancelAtRequest > 0 {
						e.sendCancelled(b, mm, wj, cs.CancelAtRequest)
						healthy = false // the context of this backend is gone
						return
					}
					if !e.send(b, mm, wj) {
						healthy = false
						return
					}
					for _, c := range classes {
						e.r.Nontrivial(c + "|" + b.variant)
					}
				}
			})
			if !healthy {
				// a backend panicked or hung: its pools / goroutines may be poisoned and it may still read the map
				if cs.Config != nil {
					return
				}
				if err := e.configure(cs.Backends); err != nil {
					e.r.Inconclusive("rebuild-failed")
				}
				return
			}
			if e.r.Guard("aggregator-panic:reset", json.RawMessage(pj), func() { agg.Reset() }) {
				return
			}
		}
	}
	if e.r.WantSample() && len(cs.Steps) <= 7 {
		e.r.Sample(cs)
	}
}

// ---------------------------------------------------------------------------------------------
// generator

var pctPool = []float64{100, -100, 90, -90, 50, -50, 1, -1, 0}

var limits = []uint32{0, 1, 2, 3, math.MaxUint32}

var names = []string{"m0", "m1", "a.b", "x-y_z", "statsd.int", "na me/x", "é"}

// tag sets are drawn from a small pool so that datapoints collide on series
var tagSets = [][]string{
	nil,
	{"env:prod"},
	{"env:dev", "bare"},
	{"host:h1", "k:v:w"},
	{"é:ü", "a:1", "le:5"},
	{"statsdSource:x", "env:prod"},
	{"gsd_histogram:1_5_10"},
	{"gsd_histogram:1_5_10", "env:prod"},
	{"gsd_histogram:"},
	{"gsd_histogram:a__b"},
	{"gsd_histogram:nan"},
	{"gsd_histogram:inf"},
	{"gsd_histogram:-inf_inf_+Inf"},
	{"gsd_histogram:5_5_5"},
	{"gsd_histogram:1e308_-1e308_1e999"},
	{"gsd_histogram:0.5_abc_2", "host:h2"},
	{"gsd_histogram:nan_nan_1"},
	{"gsd_histogram:-0_0_0.0000001"},
	{"gsd_histogram:3", "gsd_histogram:4_5"},
	{"t0:0", "t1:1", "t2:2", "t3:3", "t4:4", "t5:5", "t6:6", "t7:7", "t8:8", "t9:9", "t10:10", "t11"},
}

var specialValues = []float64{0, math.Copysign(0, -1), 1e308, -1e308, math.Inf(1), math.Inf(-1), 5e-324, 1e-300, 12345.678, -2.5, 1e18, math.MaxFloat64}

var sources = []string{"", "", "10.0.0.1", "i-abc"}

var members = []string{"", "a", "b", "user 1", "é", "1.5"}

func fmtF(v float64) string { return strconv.FormatFloat(v, 'g', -1, 64) }

func genValue(rng *rand.Rand) float64 {
	switch x := rng.Intn(10); {
	case x < 5:
		return float64(rng.Intn(21) - 5)
	case x < 7:
		return float64(rng.Intn(2000001)-1000000) / 1000
	default:
		return specialValues[rng.Intn(len(specialValues))]
	}
}

func genBatch(rng *rand.Rand) []dpoint {
	var out []dpoint
	n := 1 + rng.Intn(5)
	for i := 0; i < n; i++ {
		dp := dpoint{N: names[rng.Intn(len(names))], S: sources[rng.Intn(len(sources))]}
		if rng.Intn(8) != 0 {
			dp.N = names[rng.Intn(3)]
		}
		dp.G = tagSets[rng.Intn(len(tagSets))]
		switch x := rng.Intn(10); {
		case x < 5:
			dp.T = tTimer
		case x < 7:
			dp.T = tCounter
		case x < 9:
			dp.T = tGauge
		default:
			dp.T = tSet
		}
		if dp.T != tTimer && rng.Intn(2) == 0 { // histogram tags on other types are legal too, but keep most of them on timers
			dp.G = tagSets[rng.Intn(6)]
		}
		dp.V = fmtF(genValue(rng))
		if dp.T == tCounter || dp.T == tTimer {
			dp.R = []float64{1, 1, 0.5, 0.1, 0.001}[rng.Intn(5)]
		}
		if dp.T == tSet {
			dp.V = ""
			dp.M = members[rng.Intn(len(members))]
		}
		out = append(out, dp)
		if dp.T == tTimer && rng.Intn(5) < 2 { // a burst on one series: n = 2, 3, 4...
			for k := rng.Intn(4) + 1; k > 0; k-- {
				more := dp
				more.V = fmtF(genValue(rng))
				out = append(out, more)
			}
		}
	}
	return out
}

func genAgg(rng *rand.Rand) acfg {
	var a acfg
	np := rng.Intn(6)
	for i := 0; i < np; i++ {
		if rng.Intn(5) < 3 {
			a.Percentiles = append(a.Percentiles, pctPool[rng.Intn(len(pctPool))])
		} else {
			a.Percentiles = append(a.Percentiles, float64(rng.Intn(201)-100))
		}
	}
	a.Limit = limits[rng.Intn(len(limits))]
	pool := []int64{0, 0, int64(10 * time.Second), int64(10 * time.Second), int64(time.Second), -int64(time.Second)}
	for t := 1; t <= 4; t++ {
		a.ExpiryNS[t] = pool[rng.Intn(len(pool))]
	}
	return a
}

func genBackends(rng *rand.Rand) bcfg {
	c := bcfg{
		DatadogBatch:   []int{1, 21, 25, 40, 1000, 1000, 1000, 1000}[rng.Intn(8)],
		NewRelicBatch:  []int{1, 21, 25, 40, 1000, 1000, 1000, 1000}[rng.Intn(8)],
		InfluxBatch:    []int{1, 2, 3, 10, 5000, 5000, 5000, 5000}[rng.Intn(8)],
		OTLPBatch:      []int{1, 5, 20, 50, 1000, 1000, 1000, 1000}[rng.Intn(8)],
		DatadogGzip:    rng.Intn(2) == 0,
		OTLPGzip:       rng.Intn(2) == 0,
		StatsdNoTags:   rng.Intn(2) == 0,
		FlushIntervalS: []int{1, 10, 60}[rng.Intn(3)],
	}
	switch rng.Intn(6) {
	case 0, 1:
	case 2:
		c.Disabled = 1 << uint(rng.Intn(15))
	case 3:
		c.Disabled = 0x7fff
	case 4:
		c.Disabled = 0x7fff &^ (1<<1 | 1<<3 | 1<<5 | 1<<8 | 1<<12 | 1<<14) // every plain sub-metric off, percentiles on
	default:
		c.Disabled = uint16(rng.Intn(1 << 15))
	}
	return c
}

func genSteps(rng *rand.Rand) []step {
	var steps []step
	flushInterval := []int64{int64(time.Second), int64(10 * time.Second), int64(time.Millisecond)}[rng.Intn(3)]
	n := 2 + rng.Intn(9)
	for i := 0; i < n; i++ {
		switch x := rng.Intn(100); {
		case x < 55:
			steps = append(steps, step{Op: "merge", DPs: genBatch(rng)})
		case x < 80:
			steps = append(steps, step{Op: "flush", NS: flushInterval})
		default:
			steps = append(steps, step{Op: "advance", NS: []int64{int64(500 * time.Millisecond), int64(2 * time.Second), int64(20 * time.Second)}[rng.Intn(3)]})
		}
	}
	steps = append(steps, step{Op: "flush", NS: flushInterval})
	if rng.Intn(2) == 0 { // one more flush in which whatever persisted is idle
		if rng.Intn(2) == 0 {
			steps = append(steps, step{Op: "advance", NS: int64(2 * time.Second)})
		}
		steps = append(steps, step{Op: "flush", NS: flushInterval})
	}
	return steps
}

// corpus: the configurations the three repaired defects need, and a few more boundaries, against the
// default backend settings.
func corpus() []*tcase {
	sec := int64(time.Second)
	bc := bcfg{DatadogBatch: 1000, NewRelicBatch: 1000, InfluxBatch: 5000, OTLPBatch: 1000, DatadogGzip: true, OTLPGzip: true, FlushIntervalS: 1}
	timer := func(tags []string, vals ...float64) step {
		s := step{Op: "merge"}
		for _, v := range vals {
			s.DPs = append(s.DPs, dpoint{T: tTimer, N: "t", V: fmtF(v), G: tags})
		}
		return s
	}
	fl := step{Op: "flush", NS: sec}
	var out []*tcase
	for _, limit := range limits {
		for n := 1; n <= 5; n++ {
			vals := make([]float64, n)
			for i := range vals {
				vals[i] = float64(i * 3)
			}
			out = append(out, &tcase{Agg: acfg{Percentiles: pctPool, Limit: limit}, Backends: bc, Steps: []step{
				timer(nil, vals...), timer([]string{"gsd_histogram:1_5_10"}, vals...), timer([]string{"gsd_histogram:"}, vals...), fl, fl,
				timer(nil, vals...), fl}})
		}
	}
	all := bc
	all.Disabled = 0x7fff
	out = append(out, &tcase{Agg: acfg{Percentiles: []float64{90}, Limit: 2}, Backends: all, Steps: []step{timer(nil, 1, 2, 3), timer([]string{"gsd_histogram:1_2"}, 1, 2, 3), fl, fl}})
	return out
}

// ---------------------------------------------------------------------------------------------

func TestCheck(t *testing.T) {
	r := mon.Start(t, "C04")
	defer r.Finish()
	r.Rule("cases: histories of up to 14 steps (merge batch | flush | advance clock) over a real MetricAggregator whose clock is virtual; 0..5 integer percentiles in [-100,100] (pool ±100 ±90 ±50 ±1 0), histogram limit from {0,1,2,3,MaxUint32}, per-type expiry from {0,10s,1s,-1s} so that idle persisted series occur, sub-metric masks (none, one flag, all, all plain ones, random); batches of counters, gauges, sets and timers (bursts of 2..5 values on one series) over 7 names x 20 tag sets x 3 sources, with and without gsd_histogram tags including malformed lists (empty, a__b, nan, inf, duplicates, overflow, two histogram tags, 12 tags); values 0, -0, small integers, ±1e308, MaxFloat64, ±Inf, 5e-324; after every flush the map given to Process goes, one backend at a time, to SendMetricsAsync of 20 backend variants built through their viper factories against local sinks: graphite legacy/basic/tags, datadog, influxdb v1/v2 x gzip, newrelic infra/insights/metrics, otlp AsGauge/AsHistogram x resource keys, statsdaemon udp/tcp, stdout, null, cloudwatch (mock API); batch sizes from {1,...,default}. Further phases: (config) 1200 quick / 40000 thorough single backends (datadog, influxdb, newrelic, otlp, graphite, statsdaemon) built by backends.InitBackend from configuration TEXT (toml) with batch sizes from {-1000..0..100000, 1e8, 2^40, MaxInt32, MaxInt64, MinInt64, quoted, non-numeric, fractional}, valid and invalid flush types / api versions / conversions / modes / time-outs / missing keys: either the constructor refuses or a whole history is flushed through the backend without a crash; (cancel) 480 / 16000 flushes of several batches to an HTTP backend with max-requests 1..2 whose endpoint holds every request: k-1 requests are answered and the flush context is cancelled when the k-th (k = 1..5) is in flight; (server) 48 / 640 real statsd.Server instances with graphite / statsdaemon tcp+udp / null backends whose Run functions sit in Server.Runnables next to 0..2 slow-to-stop runnables, flush interval 0.5..3 ms on the real clock, fed a few datagrams and stopped after 5..35 ms while flush ticks keep arriving. Oracle: no panic in Flush/Process/Reset or in SendMetricsAsync (recover), no process death (write-ahead case log), the callback arrives. One evaluation = one completed SendMetricsAsync. Non-trivial: a flushed map with a timer with n >= 1, an idle persisted timer or a histogram; distinct by (percentile sign pattern, n class {0,1,2,3+}) resp. (n class, limit, bucket count class) x backend variant.")
	r.Assume("an HTTP sink that answers 200 with an empty body; panics on goroutines of the backends are seen as death of the child process")
	// the backends take 1 MB buffers and flate writers from pools that every GC cycle empties
	debug.SetGCPercent(400)
	e, err := newEnv(r)
	if err != nil {
		t.Fatalf("harness: cannot open sinks: %v", err)
	}
	defer e.close()

	if p := r.ReplayPayload(); p != nil {
		replay(t, r, e, p)
		return
	}

	rng := r.Rand("c04")
	n := r.N(2400, 64000)
	const epoch = 12 // histories per backend set
	var bc bcfg
	for i := 0; i < n; i++ {
		if i%epoch == 0 || e.backends == nil {
			bc = genBackends(rng)
			if err := e.configure(bc); err != nil {
				t.Fatalf("harness: cannot build the backends for %+v: %v", bc, err)
			}
		}
		cs := &tcase{Agg: genAgg(rng), Backends: bc, Steps: genSteps(rng)}
		e.run(cs)
	}
	// phases that reach the code around the payload builders: constructors from configuration text,
	// cancellation between batches, start and stop of a real server with socket backends (phases_test.go)
	configPhase(e, r.Rand("c04-config"), r.N(1200, 40000))
	cancelPhase(e, r.Rand("c04-cancel"), r.N(480, 16000))
	serverPhase(e, r.Rand("c04-server"), r.N(48, 640))
	if s, _ := r.Shard(); s == 0 {
		cc := corpus()
		for _, cs := range cc {
			if err := e.configure(cs.Backends); err != nil {
				t.Fatalf("harness: cannot build the backends for %+v: %v", cs.Backends, err)
			}
			e.run(cs)
		}
		r.Event("boundary_corpus", len(cc))
	}
	r.Extra("http_requests_received", e.sinks.httpReq.Load())
	r.Extra("udp_packets_received", e.sinks.udpPkt.Load())
	r.Extra("tcp_connections_accepted", e.sinks.tcpConn.Load())
	r.Extra("cloudwatch_api_calls", e.cw.calls.Load())
}

func replay(t *testing.T, r *mon.Run, e *env, p []byte) {
	var w witness
	var sw struct {
		Server *serverCase `json:"server_case"`
	}
	if mon.ReplayCase(p, &sw) != nil && sw.Server != nil {
		runServerCase(r, e, sw.Server)
		r.Nontrivial("replay-a")
		r.Nontrivial("replay-b")
		return
	}
	if mon.ReplayCase(p, &w) == nil || len(w.Case.Steps) == 0 {
		// a crash witness: {"last_case": "<write-ahead line>"}
		var f struct {
			Last string `json:"last_case"`
		}
		if json.Unmarshal(p, &f) == nil && json.Unmarshal([]byte(f.Last), &sw) == nil && sw.Server != nil {
			runServerCase(r, e, sw.Server)
			r.Nontrivial("replay-a")
			r.Nontrivial("replay-b")
			return
		}
		if json.Unmarshal(p, &f) != nil || json.Unmarshal([]byte(f.Last), &w) != nil || len(w.Case.Steps) == 0 {
			t.Skip("no case in replay file")
		}
	}
	if w.Case.Config == nil {
		if err := e.configure(w.Case.Backends); err != nil {
			t.Fatalf("harness: cannot build the backends: %v", err)
		}
	}
	e.run(&w.Case)
	r.Nontrivial("replay-a")
	r.Nontrivial("replay-b")
}
