//go:build verif

package c04

// Phases of C04 that reach the code AROUND the payload builders:
//
//   configPhase  "every start-up configuration the server accepts (... any backend batch size and conversion
//                mode)": one backend is built from configuration TEXT (toml through viper.ReadConfig) by the
//                registered factory (backends.InitBackend), with batch sizes from negative to large, valid and
//                invalid modes / versions / time-outs; either the constructor refuses the configuration or every
//                later flush of a history is crash-free.
//   cancelPhase  the same, with the flush context cancelled at every point between two batches: the endpoint
//                holds requests (max-requests buffers in flight), k-1 requests are let through, the context
//                is cancelled when the k-th has arrived.
//   serverPhase  the composed server: a real statsd.Server with graphite / statsdaemon backends on sockets
//                (their Run functions in Server.Runnables, as cmd/gostatsd does), a flush interval of 1..3 ms,
//                runnables that are slow to stop; it is started, fed and stopped while flush ticks keep
//                arriving. A flush that crashes kills the process; the driver attributes it through r.Case.

import (
	"bytes"
	"context"
	"encoding/json"
	"errors"
	"fmt"
	"math"
	"math/rand"
	"net"
	"os"
	"runtime/debug"
	"strings"
	"sync"
	"syscall"
	"testing"
	"time"

	"github.com/spf13/viper"

	"github.com/atlassian/gostatsd"
	"github.com/atlassian/gostatsd/pkg/backends"
	"github.com/atlassian/gostatsd/pkg/statsd"
	"github.com/atlassian/gostatsd/pkg/transport"

	"verif/mon"
)

// cfgCase is one backend configuration as text.
type cfgCase struct {
	Name string `json:"backend"`
	Text string `json:"toml"`
}

func tomlValue(v interface{}) string {
	switch x := v.(type) {
	case string:
		return fmt.Sprintf("%q", x)
	case []string:
		q := make([]string, len(x))
		for i := range x {
			q[i] = fmt.Sprintf("%q", x[i])
		}
		return "[" + strings.Join(q, ", ") + "]"
	default:
		return fmt.Sprint(x)
	}
}

type kv struct {
	k string
	v interface{}
}

func renderConfig(name string, mask uint16, flushIntervalS int, section []kv) string {
	var b strings.Builder
	fmt.Fprintf(&b, "flush-interval = \"%ds\"\n", flushIntervalS)
	if len(section) > 0 {
		fmt.Fprintf(&b, "\n[%s]\n", name)
		for _, e := range section {
			fmt.Fprintf(&b, "%s = %s\n", e.k, tomlValue(e.v))
		}
		if name == "otlp" {
			b.WriteString("\n[otlp.disabled_timer_aggregations]\n")
			for k, v := range maskOTLPMap(mask) {
				fmt.Fprintf(&b, "%s = %v\n", k, v)
			}
		}
	}
	b.WriteString("\n[disabled-sub-metrics]\n")
	for k, v := range maskViperMap(mask) {
		fmt.Fprintf(&b, "%s = %v\n", k, v)
	}
	return b.String()
}

// batch sizes: what an operator may write, sensible or not, up to the largest value the key's type takes
// (toml integers are 64 bit). A correct builder allocates by what it has, not by the limit; the address
// space of the check process is capped in TestMain so that a builder which reserves metrics-per-batch
// entries dies at once (fatal "out of memory", attributed by the driver through the write-ahead line)
// instead of eating the machine.
var batchSizes = []interface{}{-1000, -21, -1, 0, 1, 1, 2, 3, 5, 20, 21, 22, 25, 40, 100, 1000, 5000, 100000, "25", "-3", "x", 2.5,
	100000000, int64(1) << 40, int64(math.MaxInt32), int64(math.MaxInt64), int64(math.MaxInt64) - 19, int64(math.MinInt64)}

func pickV(rng *rand.Rand, v ...interface{}) interface{} { return v[rng.Intn(len(v))] }

// genConfig draws the configuration section of one backend. wild = false keeps everything but the batch
// size valid (the cancellation phase needs an accepted configuration).
func genConfig(rng *rand.Rand, s *sinks, wild bool, name string, maxRequests int) []kv {
	// the addresses of the local sinks are placeholders in the text (they differ from process to process)
	url, tcp, udp := "{{HTTP}}", "{{TCP}}", "{{UDP}}"
	batch := batchSizes[rng.Intn(len(batchSizes))]
	if !wild {
		batch = pickV(rng, 1, 1, 2, 2, 3, 5, 21, 22, 25)
	}
	odd := func(valid interface{}, others ...interface{}) interface{} {
		if wild && rng.Intn(5) == 0 {
			return others[rng.Intn(len(others))]
		}
		return valid
	}
	elapsed := odd("15s", "-1ns", "0s", "-5s", "1ms")
	var out []kv
	add := func(k string, v interface{}) { out = append(out, kv{k, v}) }
	maybe := func(k string, v interface{}) {
		if !wild || rng.Intn(4) != 0 {
			add(k, v)
		}
	}
	switch name {
	case "datadog":
		add("api_endpoint", url)
		add("api_key", odd("k", ""))
		maybe("metrics_per_batch", batch)
		add("compress_payload", rng.Intn(2) == 0)
		add("max_requests", maxRequests)
		maybe("max_request_elapsed_time", elapsed)
		maybe("user-agent", odd("gostatsd", ""))
	case "influxdb":
		add("api-endpoint", odd(url, "", url+"/base?x=1"))
		ver := odd(pickV(rng, 1, 2), 0, 3)
		add("api-version", ver)
		maybe("database", "db")
		maybe("bucket", "bk")
		maybe("org", "org")
		maybe("retention-policy", "rp")
		maybe("consistency", odd("one", "bogus"))
		add("compress-payload", rng.Intn(2) == 0)
		maybe("metrics-per-batch", batch)
		add("max-requests", maxRequests)
		maybe("max-request-elapsed-time", elapsed)
		maybe("credentials", "secret")
	case "newrelic":
		add("address", url+"/v1/data")
		add("address-metrics", url+"/metric/v1")
		maybe("flush-type", odd(pickV(rng, "infra", "insights", "metrics"), "bogus", ""))
		maybe("api-key", "k")
		maybe("metrics-per-batch", batch)
		add("max-requests", maxRequests)
		maybe("max-request-elapsed-time", elapsed)
		maybe("tag-prefix", odd("", "t."))
		maybe("event-type", "GoStatsD")
	case "otlp":
		maybe("metrics_endpoint", url+"/v1/metrics")
		maybe("logs_endpoint", url+"/v1/logs")
		maybe("conversion", odd(pickV(rng, "AsGauge", "AsHistogram"), "bogus", "asgauge", ""))
		maybe("resource_keys", pickV(rng, []string{}, []string{"env", "host", "gsd_histogram"}))
		maybe("metrics_per_batch", batch)
		add("max_requests", maxRequests)
		add("max_retries", odd(0, -1, 2))
		maybe("max_request_elapsed_time", odd("15s", "0s", "-5s"))
		add("compress_payload", rng.Intn(2) == 0)
	case "graphite":
		add("address", odd(tcp, ""))
		maybe("mode", odd(pickV(rng, "legacy", "basic", "tags"), "bogus", "TAGS", ""))
		maybe("dial_timeout", odd("1s", "0s", "-1s"))
		maybe("write_timeout", odd("1s", "0s", "-1s"))
		maybe("global_prefix", odd("stats", "", ".a..b.", "sp ace/é"))
		maybe("global_suffix", odd("", ".s.", "x y"))
		maybe("prefix_timer", odd("timers", ""))
	case "statsdaemon":
		useTCP := rng.Intn(2) == 0
		addr := udp
		if useTCP {
			addr = tcp
		}
		add("address", odd(addr, ""))
		add("tcp_transport", useTCP)
		maybe("disable_tags", rng.Intn(2) == 0)
		maybe("dial_timeout", odd("1s", "0s", "-1s"))
		maybe("write_timeout", odd("1s", "0s", "-1s"))
	}
	return out
}

var configurable = []string{"datadog", "influxdb", "newrelic", "otlp", "graphite", "statsdaemon", "datadog", "influxdb", "newrelic", "otlp"}

// configureFromText builds the single backend of cs.Config. It returns false when the configuration was
// refused (that is a legitimate outcome) or the constructor did not survive.
func (e *env) configureFromText(cs *tcase) bool {
	e.stop()
	e.lastAccepted = false
	wit, _ := json.Marshal(&witness{Case: *cs})
	e.r.Case("%s", wit)
	v := viper.New()
	v.SetConfigType("toml")
	text := strings.NewReplacer("{{HTTP}}", e.sinks.http.URL, "{{TCP}}", e.sinks.tcp.Addr().String(), "{{UDP}}", e.sinks.udp.LocalAddr().String()).Replace(cs.Config.Text)
	if err := v.ReadConfig(bytes.NewBufferString(text)); err != nil {
		e.r.Inconclusive("harness-config-text-unreadable")
		return false
	}
	var b gostatsd.Backend
	var err error
	panicked := false
	func() {
		defer func() {
			if p := recover(); p != nil {
				panicked = true
				// start-up is not flushing: the statement does not cover it; kept visible in the evidence
				e.r.Event("constructor_panics:"+cs.Config.Name+":"+mon.PanicSite(string(debug.Stack())), 1)
			}
		}()
		b, err = backends.InitBackend(cs.Config.Name, v, e.logger, e.pool)
	}()
	if panicked {
		e.r.Inconclusive("constructor-panicked")
		return false
	}
	if err != nil {
		e.r.Event("configs_refused", 1)
		e.r.Event("configs_refused:"+cs.Config.Name, 1)
		return false
	}
	e.lastAccepted = true
	e.r.Event("configs_accepted", 1)
	e.r.Event("configs_accepted:"+cs.Config.Name, 1)
	e.ctx, e.cancel = context.WithCancel(context.Background())
	if rn, ok := b.(gostatsd.Runner); ok {
		go rn.Run(e.ctx)
	}
	e.backends = []backend{{variant: "cfg/" + cs.Config.Name, b: b}}
	return true
}

func batchClass(text string) string {
	for _, line := range strings.Split(text, "\n") {
		if strings.HasPrefix(line, "metrics_per_batch") || strings.HasPrefix(line, "metrics-per-batch") {
			val := strings.TrimSpace(line[strings.Index(line, "=")+1:])
			switch {
			case strings.HasPrefix(val, "\""):
				return "text"
			case strings.HasPrefix(val, "-"):
				return "negative"
			case val == "0":
				return "zero"
			case len(val) >= 9:
				return "huge"
			case len(val) >= 4:
				return "large"
			case len(val) == 1:
				return "1-9"
			default:
				return "10-999"
			}
		}
	}
	return "default"
}

func configPhase(e *env, rng *rand.Rand, n int) {
	for i := 0; i < n; i++ {
		name := configurable[rng.Intn(len(configurable))]
		bc := genBackends(rng)
		cs := &tcase{Agg: genAgg(rng), Backends: bc, Steps: genSteps(rng)}
		cs.Config = &cfgCase{Name: name, Text: renderConfig(name, bc.Disabled, bc.FlushIntervalS, genConfig(rng, e.sinks, true, name, 1+rng.Intn(4)))}
		e.run(cs)
		e.r.Event("config_cases", 1)
		e.r.Nontrivial("config|" + name + "|batch=" + batchClass(cs.Config.Text) + "|accepted=" + fmt.Sprint(e.lastAccepted))
		if e.r.WantSample() && i%97 == 5 {
			e.r.Sample(cs.Config)
		}
	}
}

// ---------------------------------------------------------------------------------------------
// cancellation between batches

var cancellable = []string{"influxdb", "influxdb", "datadog", "newrelic", "otlp"}

func cancelPhase(e *env, rng *rand.Rand, n int) {
	for i := 0; i < n; i++ {
		name := cancellable[rng.Intn(len(cancellable))]
		bc := genBackends(rng)
		cs := &tcase{Agg: genAgg(rng), Backends: bc, CancelAtRequest: 1 + rng.Intn(5)}
		// several batches of datapoints, then one flush: more series than the batch size
		for k := 2 + rng.Intn(4); k > 0; k-- {
			cs.Steps = append(cs.Steps, step{Op: "merge", DPs: genBatch(rng)})
		}
		cs.Steps = append(cs.Steps, step{Op: "flush", NS: int64(time.Second)})
		cs.Config = &cfgCase{Name: name, Text: renderConfig(name, bc.Disabled, bc.FlushIntervalS, genConfig(rng, e.sinks, false, name, 1+rng.Intn(2)))}
		e.run(cs)
		e.r.Event("cancel_cases", 1)
	}
}

// sendCancelled is send with a slow endpoint and a cancellation: k-1 requests are answered, the context is
// cancelled when the k-th request has arrived (or when the flush completed with fewer requests).
func (e *env) sendCancelled(b backend, mm *gostatsd.MetricMap, wit []byte, k int) {
	e.r.Case("%s", wit)
	g := e.sinks.hold()
	defer e.sinks.unhold(g)
	for i := 0; i < k-1; i++ {
		g.tokens <- struct{}{}
	}
	st := &sendState{}
	cb := func(errs []error) { st.called.Add(1) }
	go func() {
		defer func() {
			if p := recover(); p != nil {
				st.panicked, st.panicVal, st.stack = true, p, string(debug.Stack())
			}
			st.returned.Store(true)
		}()
		b.b.SendMetricsAsync(e.ctx, mm, cb)
	}()
	done := func() bool { return st.returned.Load() && (st.panicked || st.called.Load() > 0) }
	if !mon.WaitUntil(callbackWatchdog, func() bool { return g.arrived.Load() >= int64(k) || done() }) {
		e.r.Inconclusive("cancel-phase:no-progress-within-watchdog:" + b.variant)
		e.cancel()
		return
	}
	reached := g.arrived.Load() >= int64(k)
	e.cancel() // the flusher's context ends while batch k is in flight and the builder may be waiting for a buffer
	if !mon.WaitUntil(callbackWatchdog, done) {
		what := "callback"
		if !st.returned.Load() {
			what = "return"
		}
		e.r.Inconclusive("cancel-phase:no-" + what + "-within-watchdog:" + b.variant)
		return
	}
	if st.panicked {
		stack := st.stack
		if len(stack) > 3000 {
			stack = stack[:3000]
		}
		e.r.Violation("send-panic:cancelled:"+b.variant+":"+mon.PanicSite(st.stack),
			fmt.Sprintf("SendMetricsAsync of %s panicked when its context was cancelled while request %d of the flush was in flight: %v\n%s", b.variant, k, st.panicVal, stack), json.RawMessage(wit))
		return
	}
	e.r.Eval(1)
	e.r.Event("cancelled_flushes", 1)
	if reached {
		e.r.Event("cancelled_with_request_in_flight", 1)
		e.r.Nontrivial(fmt.Sprintf("cancel|%s|k=%d", b.variant, k))
	}
}

// ---------------------------------------------------------------------------------------------
// start and stop of the composed server

type serverCase struct {
	FlushIntervalUS int      `json:"flush_interval_us"`
	Workers         int      `json:"workers"`
	Backends        []string `json:"backends"`       // graphite | statsdaemon-tcp | statsdaemon-udp | null
	SlowStopMS      []int    `json:"slow_stop_ms"`   // runnables that need this long to return after their context ended
	SlowFirst       bool     `json:"slow_first"`     // slow runnables before (true) or after the backends' Run in Server.Runnables
	RunForMS        int      `json:"run_for_ms"`     // the server is stopped after this long
	Datagrams       int      `json:"datagrams_sent"` // datagrams fed before the stop
}

type pktConn struct {
	ch     chan []byte
	closed chan struct{}
	once   sync.Once
}

func (c *pktConn) ReadFrom(b []byte) (int, net.Addr, error) {
	select {
	case p := <-c.ch:
		return copy(b, p), &net.UDPAddr{IP: net.IPv4(127, 0, 0, 1), Port: 4000}, nil
	case <-c.closed:
		return 0, nil, errors.New("use of closed network connection")
	}
}
func (c *pktConn) WriteTo(b []byte, addr net.Addr) (int, error) { return len(b), nil }
func (c *pktConn) Close() error                                 { c.once.Do(func() { close(c.closed) }); return nil }
func (c *pktConn) LocalAddr() net.Addr                          { return &net.UDPAddr{IP: net.IPv4(127, 0, 0, 1), Port: 8125} }
func (c *pktConn) SetDeadline(time.Time) error                  { return nil }
func (c *pktConn) SetReadDeadline(time.Time) error              { return nil }
func (c *pktConn) SetWriteDeadline(time.Time) error             { return nil }

func runServerCase(r *mon.Run, e *env, sc *serverCase) {
	wit, _ := json.Marshal(map[string]interface{}{"server_case": sc})
	r.Case("%s", wit)
	var bes []gostatsd.Backend
	var runnables []gostatsd.Runnable
	for _, name := range sc.Backends {
		section := ""
		reg := name
		switch name {
		case "graphite":
			section = fmt.Sprintf("[graphite]\naddress = %q\n", e.sinks.tcp.Addr().String())
		case "statsdaemon-tcp":
			reg = "statsdaemon"
			section = fmt.Sprintf("[statsdaemon]\naddress = %q\ntcp_transport = true\n", e.sinks.tcp.Addr().String())
		case "statsdaemon-udp":
			reg = "statsdaemon"
			section = fmt.Sprintf("[statsdaemon]\naddress = %q\n", e.sinks.udp.LocalAddr().String())
		}
		v := viper.New()
		v.SetConfigType("toml")
		if err := v.ReadConfig(bytes.NewBufferString(section)); err != nil {
			r.Inconclusive("harness-config-text-unreadable")
			return
		}
		b, err := backends.InitBackend(reg, v, e.logger, e.pool)
		if err != nil {
			r.Inconclusive("server-phase:backend-refused")
			return
		}
		bes = append(bes, b)
		runnables = gostatsd.MaybeAppendRunnable(runnables, b) // as cmd/gostatsd does
	}
	var slow []gostatsd.Runnable
	for _, ms := range sc.SlowStopMS {
		d := time.Duration(ms) * time.Millisecond
		slow = append(slow, func(ctx context.Context) {
			<-ctx.Done()
			time.Sleep(d) // a provider / cache / draining backend that is slow to stop: part of the scenario, not of the oracle
		})
	}
	if sc.SlowFirst {
		runnables = append(slow, runnables...)
	} else {
		runnables = append(runnables, slow...)
	}
	v := viper.New()
	srv := &statsd.Server{
		Runnables: runnables, Backends: bes,
		FlushInterval: time.Duration(sc.FlushIntervalUS) * time.Microsecond, MaxReaders: 1, MaxParsers: 1, MaxWorkers: sc.Workers, MaxQueueSize: 100,
		MaxConcurrentEvents: 2, ReceiveBatchSize: 4, EstimatedTags: 2, StatserType: gostatsd.StatserNull, PercentThreshold: []float64{90, -50},
		HistogramLimit: 3, ServerMode: "standalone", DisableInternalEvents: true, Viper: v, TransportPool: transport.NewTransportPool(e.logger, v),
	}
	conn := &pktConn{ch: make(chan []byte), closed: make(chan struct{})}
	ctx, cancel := context.WithCancel(context.Background())
	done := make(chan error, 1)
	go func() { done <- srv.RunWithCustomSocket(ctx, func() (net.PacketConn, error) { return conn, nil }) }()
	stopAt := time.Now().Add(time.Duration(sc.RunForMS) * time.Millisecond)
	go func() { // feeder: a few datagrams so that the flushes carry something
		for i := 0; i < sc.Datagrams; i++ {
			select {
			case conn.ch <- []byte(fmt.Sprintf("c04.c:%d|c\nc04.t:%d|ms|#gsd_histogram:1_5\nc04.t:7|ms\nc04.g:3|g\nc04.s:u%d|s\n", i, i, i)):
			case <-ctx.Done():
				return
			}
		}
	}()
	time.Sleep(time.Until(stopAt)) // when the server is stopped is part of the scenario; no verdict depends on it
	cancel()
	select {
	case <-done:
	case <-time.After(callbackWatchdog):
		r.Inconclusive("server-phase:shutdown-watchdog")
		return
	}
	r.Eval(1)
	r.Event("server_start_stop_cycles", 1)
	r.Nontrivial(fmt.Sprintf("server|%s|workers=%d|slow=%d|slowfirst=%v", strings.Join(sc.Backends, "+"), sc.Workers, len(sc.SlowStopMS), sc.SlowFirst))
}

func serverPhase(e *env, rng *rand.Rand, n int) {
	pool := []string{"graphite", "statsdaemon-tcp", "statsdaemon-udp", "null"}
	for i := 0; i < n; i++ {
		sc := &serverCase{FlushIntervalUS: 500 + rng.Intn(2500), Workers: 1 + rng.Intn(3), SlowFirst: rng.Intn(2) == 0, RunForMS: 5 + rng.Intn(30), Datagrams: rng.Intn(20)}
		perm := rng.Perm(len(pool))
		for _, j := range perm[:1+rng.Intn(3)] {
			sc.Backends = append(sc.Backends, pool[j])
		}
		for k := rng.Intn(3); k > 0; k-- {
			sc.SlowStopMS = append(sc.SlowStopMS, 10+rng.Intn(60))
		}
		runServerCase(e.r, e, sc)
	}
}

// TestMain caps the address space of the check process: a payload builder that reserves memory in
// proportion to a huge configured batch size then fails immediately instead of exhausting the machine.
func TestMain(m *testing.M) {
	const ceiling = 6 << 30
	lim := syscall.Rlimit{Cur: ceiling, Max: ceiling}
	var cur syscall.Rlimit
	if syscall.Getrlimit(syscall.RLIMIT_AS, &cur) == nil && cur.Max != 0 && cur.Max < ceiling {
		lim = syscall.Rlimit{Cur: cur.Max, Max: cur.Max}
	}
	_ = syscall.Setrlimit(syscall.RLIMIT_AS, &lim)
	os.Exit(m.Run())
}
