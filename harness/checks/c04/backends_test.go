//go:build verif

package c04

import (
	"context"
	"fmt"
	"io"
	"net"
	"net/http"
	"net/http/httptest"
	"sync/atomic"

	awscw "github.com/aws/aws-sdk-go-v2/service/cloudwatch"
	"github.com/sirupsen/logrus"
	"github.com/spf13/viper"

	"github.com/atlassian/gostatsd"
	"github.com/atlassian/gostatsd/pkg/backends"
	"github.com/atlassian/gostatsd/pkg/backends/cloudwatch"
	"github.com/atlassian/gostatsd/pkg/transport"
)

// sinks are the local endpoints every backend talks to: an HTTP server answering 200 with an empty
// body (an empty body is a valid empty OTLP ExportMetricsServiceResponse), a TCP listener and a UDP
// socket that read and discard.
type sinks struct {
	http    *httptest.Server
	tcp     net.Listener
	udp     net.PacketConn
	httpReq atomic.Int64
	tcpConn atomic.Int64
	udpPkt  atomic.Int64
	gate    atomic.Pointer[gate] // non-nil: the HTTP sink is a slow endpoint that holds every request
}

// gate makes the HTTP sink hold requests: a request is answered when it gets a token, when the gate is
// released, or when its client gives up.
type gate struct {
	arrived  atomic.Int64
	tokens   chan struct{}
	released chan struct{}
}

func (s *sinks) hold() *gate {
	g := &gate{tokens: make(chan struct{}, 64), released: make(chan struct{})}
	s.gate.Store(g)
	return g
}

func (s *sinks) unhold(g *gate) {
	s.gate.Store(nil)
	close(g.released)
}

func newSinks() (*sinks, error) {
	s := &sinks{}
	s.http = httptest.NewServer(http.HandlerFunc(func(w http.ResponseWriter, req *http.Request) {
		_, _ = io.Copy(io.Discard, req.Body)
		s.httpReq.Add(1)
		if g := s.gate.Load(); g != nil {
			g.arrived.Add(1)
			select {
			case <-g.tokens:
			case <-g.released:
			case <-req.Context().Done():
			}
		}
		w.WriteHeader(http.StatusOK)
	}))
	var err error
	if s.tcp, err = net.Listen("tcp", "127.0.0.1:0"); err != nil {
		return nil, err
	}
	go func() {
		for {
			c, err := s.tcp.Accept()
			if err != nil {
				return
			}
			s.tcpConn.Add(1)
			go func() {
				_, _ = io.Copy(io.Discard, c)
				_ = c.Close()
			}()
		}
	}()
	if s.udp, err = net.ListenPacket("udp", "127.0.0.1:0"); err != nil {
		return nil, err
	}
	go func() {
		buf := make([]byte, 65536)
		for {
			if _, _, err := s.udp.ReadFrom(buf); err != nil {
				return
			}
			s.udpPkt.Add(1)
		}
	}()
	return s, nil
}

func (s *sinks) close() {
	s.http.Close()
	_ = s.tcp.Close()
	_ = s.udp.Close()
}

type cwMock struct{ calls atomic.Int64 }

func (m *cwMock) PutMetricData(ctx context.Context, in *awscw.PutMetricDataInput, _ ...func(*awscw.Options)) (*awscw.PutMetricDataOutput, error) {
	m.calls.Add(1)
	return &awscw.PutMetricDataOutput{}, nil
}

// bcfg are the start-up settings shared by the backends of one epoch (in a server they come from the
// same configuration file as the aggregator's sub-metric mask).
type bcfg struct {
	Disabled       uint16 `json:"disabled_mask"`
	DatadogBatch   int    `json:"datadog_batch"`
	NewRelicBatch  int    `json:"newrelic_batch"`
	InfluxBatch    int    `json:"influx_batch"`
	OTLPBatch      int    `json:"otlp_batch"`
	DatadogGzip    bool   `json:"datadog_compress"`
	OTLPGzip       bool   `json:"otlp_compress"`
	StatsdNoTags   bool   `json:"statsdaemon_disable_tags"`
	FlushIntervalS int    `json:"flush_interval_s"`
}

func subtypes(mask uint16) gostatsd.TimerSubtypes {
	b := func(i uint) bool { return mask&(1<<i) != 0 }
	return gostatsd.TimerSubtypes{
		Lower: b(0), LowerPct: b(1), Upper: b(2), UpperPct: b(3), Count: b(4), CountPct: b(5), CountPerSecond: b(6),
		Mean: b(7), MeanPct: b(8), Median: b(9), StdDev: b(10), Sum: b(11), SumPct: b(12), SumSquares: b(13), SumSquaresPct: b(14),
	}
}

// maskViperMap is the `disabled-sub-metrics` section of the main configuration.
func maskViperMap(mask uint16) map[string]interface{} {
	keys := []string{"lower", "lower-pct", "upper", "upper-pct", "count", "count-pct", "count-per-second", "mean", "mean-pct", "median", "stddev", "sum", "sum-pct", "sum-squares", "sum-squares-pct"}
	m := map[string]interface{}{}
	for i, k := range keys {
		m[k] = mask&(1<<uint(i)) != 0
	}
	return m
}

// maskOTLPMap is otlp.disabled_timer_aggregations (decoded by mapstructure onto gostatsd.TimerSubtypes).
func maskOTLPMap(mask uint16) map[string]interface{} {
	keys := []string{"Lower", "LowerPct", "Upper", "UpperPct", "Count", "CountPct", "CountPerSecond", "Mean", "MeanPct", "Median", "StdDev", "Sum", "SumPct", "SumSquares", "SumSquaresPct"}
	m := map[string]interface{}{}
	for i, k := range keys {
		m[k] = mask&(1<<uint(i)) != 0
	}
	return m
}

type backend struct {
	variant string
	b       gostatsd.Backend
}

type variantSpec struct {
	variant string
	name    string                 // registered backend name
	section map[string]interface{} // the backend's configuration section
}

func variantSpecs(c bcfg, s *sinks) []variantSpec {
	url := s.http.URL
	tcp := s.tcp.Addr().String()
	udp := s.udp.LocalAddr().String()
	var out []variantSpec
	add := func(variant, name string, section map[string]interface{}) {
		out = append(out, variantSpec{variant, name, section})
	}
	for _, mode := range []string{"legacy", "basic", "tags"} {
		add("graphite/"+mode, "graphite", map[string]interface{}{"address": tcp, "mode": mode})
	}
	add("datadog", "datadog", map[string]interface{}{"api_endpoint": url, "api_key": "k", "metrics_per_batch": c.DatadogBatch, "compress_payload": c.DatadogGzip, "max_requests": 4})
	for _, ver := range []int{1, 2} {
		for _, gz := range []bool{false, true} {
			add(fmt.Sprintf("influxdb/v%d/gzip=%v", ver, gz), "influxdb", map[string]interface{}{
				"api-endpoint": url, "api-version": ver, "database": "db", "bucket": "bk", "org": "org",
				"compress-payload": gz, "metrics-per-batch": c.InfluxBatch, "max-requests": 4})
		}
	}
	for _, ft := range []string{"infra", "insights", "metrics"} {
		add("newrelic/"+ft, "newrelic", map[string]interface{}{"address": url + "/v1/data", "address-metrics": url + "/metric/v1", "flush-type": ft, "api-key": "k",
			"metrics-per-batch": c.NewRelicBatch, "max-requests": 4})
	}
	for _, conv := range []string{"AsGauge", "AsHistogram"} {
		for _, keys := range [][]string{nil, {"env", "host", "gsd_histogram"}} {
			add(fmt.Sprintf("otlp/%s/reskeys=%d", conv, len(keys)), "otlp", map[string]interface{}{
				"metrics_endpoint": url + "/v1/metrics", "logs_endpoint": url + "/v1/logs", "conversion": conv, "resource_keys": keys,
				"metrics_per_batch": c.OTLPBatch, "compress_payload": c.OTLPGzip, "max_requests": 4, "max_retries": 0,
				"disabled_timer_aggregations": maskOTLPMap(c.Disabled)})
		}
	}
	add("statsdaemon/udp", "statsdaemon", map[string]interface{}{"address": udp, "tcp_transport": false, "disable_tags": c.StatsdNoTags})
	add("statsdaemon/tcp", "statsdaemon", map[string]interface{}{"address": tcp, "tcp_transport": true, "disable_tags": !c.StatsdNoTags})
	add("stdout", "stdout", nil)
	add("null", "null", nil)
	return out
}

// buildBackends constructs every variant through the registered viper factory (cloudwatch through the
// verif constructor with a mock API) and starts the ones that are Runners.
func buildBackends(ctx context.Context, c bcfg, s *sinks, pool *transport.TransportPool, logger logrus.FieldLogger, cw *cwMock) ([]backend, error) {
	var out []backend
	for _, spec := range variantSpecs(c, s) {
		v := viper.New()
		v.Set("flush-interval", fmt.Sprintf("%ds", c.FlushIntervalS))
		v.Set("disabled-sub-metrics", maskViperMap(c.Disabled))
		if spec.section != nil {
			v.Set(spec.name, spec.section)
		}
		b, err := backends.InitBackend(spec.name, v, logger, pool)
		if err != nil {
			return nil, fmt.Errorf("%s: %v", spec.variant, err)
		}
		out = append(out, backend{spec.variant, b})
	}
	out = append(out, backend{"cloudwatch/mock", cloudwatch.VerifNewClient(cw, "ns", subtypes(c.Disabled), logger)})
	for _, b := range out {
		if r, ok := b.b.(gostatsd.Runner); ok {
			go r.Run(ctx)
		}
	}
	return out, nil
}
