//go:build verif

// C05, server variant — the statement speaks of "ignore-host on/off" and of "a bad-line count equal to the
// number of rejected lines"; in a running gostatsd both are properties of the *composition*: how the
// configuration text reaches statsd.Server, and how RunWithCustomSocket wires receiver, parser goroutines and the
// parser's counters. This variant therefore goes
//
//	configuration text (flags / GSD_* environment / toml file, random and independent keys)
//	  -> the real binary of cmd/gostatsd built with -tags verif (GOSTATSD_VERIF_DUMP_SERVER=1: the constructed server)
//	  -> a real statsd.Server with those values, RunWithCustomSocket on a scripted socket, 1-4 parser goroutines,
//	     the internal statser, a capturing backend
//	  -> real lines with unique names,
//
// and asks at the backend: (a) has every line its sender as source and its tags untouched — or, when the
// configuration text says ignore-host, the value of its first host: tag as source and that tag removed;
// (b) is the bad-line count the server reports (gauge parser.bad_lines_seen, METRICS.md) the number of rejected
// lines that were sent, however many parser goroutines share the work.
package c05

import (
	"bytes"
	"context"
	"encoding/json"
	"fmt"
	"math/rand"
	"net"
	"os"
	"os/exec"
	"path/filepath"
	"sort"
	"strings"
	"sync"
	"syscall"
	"time"

	"github.com/spf13/viper"

	"github.com/atlassian/gostatsd"
	"github.com/atlassian/gostatsd/pkg/statsd"

	"verif/mon"
)

// ---------------------------------------------------------------------------------------------
// configuration text -> constructed server

type invocation struct {
	Args []string `json:"args"`
	Env  []string `json:"env"`
	File string   `json:"file"`
	// what the text means (README: ignore-host defaults to false, namespace to '', one source per key here)
	IgnoreHost bool   `json:"ignore_host"`
	Namespace  string `json:"namespace"`
	Parsers    int    `json:"max_parsers"`
	Aligned    bool   `json:"flush_aligned"`
}

type dumped struct {
	IgnoreHost bool   `json:"ignore_host"`
	Namespace  string `json:"namespace"`
	MaxParsers int    `json:"max_parsers"`
	Aligned    bool   `json:"flush_aligned"`
}

// set puts key=value into the invocation through one of the three documented channels.
func (inv *invocation) set(rng *rand.Rand, key, value string, isBool bool) {
	switch rng.Intn(3) {
	case 0:
		if isBool && value == "true" && rng.Intn(2) == 0 {
			inv.Args = append(inv.Args, "--"+key)
		} else {
			inv.Args = append(inv.Args, "--"+key+"="+value)
		}
	case 1:
		inv.Env = append(inv.Env, "GSD_"+strings.ToUpper(strings.ReplaceAll(key, "-", "_"))+"="+value)
	default:
		if isBool || key == "max-parsers" {
			inv.File += fmt.Sprintf("%s = %s\n", key, value)
		} else {
			inv.File += fmt.Sprintf("%s = %q\n", key, value)
		}
	}
}

func genInvocation(rng *rand.Rand) *invocation {
	inv := &invocation{Args: []string{"--backends=stdout"}, Parsers: 1 + rng.Intn(4)}
	// keys in random order, each present or absent independently of the others
	keys := []string{"ignore-host", "flush-aligned", "namespace", "max-parsers", "flush-interval", "max-readers"}
	rng.Shuffle(len(keys), func(i, j int) { keys[i], keys[j] = keys[j], keys[i] })
	for _, k := range keys {
		switch k {
		case "ignore-host":
			if c := rng.Intn(3); c < 2 {
				inv.IgnoreHost = c == 1
				inv.set(rng, k, fmt.Sprint(inv.IgnoreHost), true)
			}
		case "flush-aligned":
			if c := rng.Intn(3); c < 2 {
				inv.Aligned = c == 1
				inv.set(rng, k, fmt.Sprint(inv.Aligned), true)
			}
		case "namespace":
			if rng.Intn(2) == 0 {
				inv.Namespace = []string{"ns", "a.b"}[rng.Intn(2)]
				inv.set(rng, k, inv.Namespace, false)
			}
		case "max-parsers":
			inv.set(rng, k, fmt.Sprint(inv.Parsers), false)
		case "flush-interval":
			if rng.Intn(2) == 0 {
				inv.set(rng, k, []string{"1s", "10s", "500ms"}[rng.Intn(3)], false)
			}
		case "max-readers":
			if rng.Intn(2) == 0 {
				inv.set(rng, k, fmt.Sprint(1+rng.Intn(4)), false)
			}
		}
	}
	return inv
}

// buildBinary compiles cmd/gostatsd of the tree under test once per run (the shards share VERIF_OUT).
func buildBinary() (string, error) {
	repo, out := os.Getenv("VERIF_REPO_DIR"), os.Getenv("VERIF_OUT")
	if repo == "" || out == "" {
		return "", fmt.Errorf("VERIF_REPO_DIR / VERIF_OUT unset")
	}
	bin := filepath.Join(out, "gostatsd-c05")
	lock, err := os.OpenFile(bin+".lock", os.O_CREATE|os.O_RDWR, 0o644)
	if err != nil {
		return "", err
	}
	defer lock.Close()
	if err := syscall.Flock(int(lock.Fd()), syscall.LOCK_EX); err != nil {
		return "", err
	}
	defer syscall.Flock(int(lock.Fd()), syscall.LOCK_UN)
	if _, err := os.Stat(bin + ".ok"); err == nil {
		return bin, nil
	}
	if msg, err := os.ReadFile(bin + ".err"); err == nil {
		return "", fmt.Errorf("%s", msg)
	}
	cmd := exec.Command("go", "build", "-tags", "verif", "-o", bin, "./cmd/gostatsd")
	cmd.Dir = repo
	for _, e := range os.Environ() {
		if strings.HasPrefix(e, "GOFLAGS=") || strings.HasPrefix(e, "GOPROXY=") || strings.HasPrefix(e, "GOTOOLCHAIN=") || strings.HasPrefix(e, "GOSUMDB=") || strings.HasPrefix(e, "GORACE=") || strings.HasPrefix(e, "GOMAXPROCS=") {
			continue
		}
		cmd.Env = append(cmd.Env, e)
	}
	cmd.Env = append(cmd.Env, "GOFLAGS=-mod=mod", "GOPROXY=off")
	if outp, err := cmd.CombinedOutput(); err != nil {
		msg := fmt.Sprintf("go build ./cmd/gostatsd failed: %v\n%s", err, outp)
		_ = os.WriteFile(bin+".err", []byte(msg), 0o644)
		return "", fmt.Errorf("%s", msg)
	}
	_ = os.WriteFile(bin+".ok", nil, 0o644)
	return bin, nil
}

// construct runs the real binary on the invocation and returns the server it constructed.
func construct(bin string, idx int, inv *invocation) (*dumped, string) {
	args := append([]string(nil), inv.Args...)
	if inv.File != "" {
		path := filepath.Join(filepath.Dir(bin), fmt.Sprintf("c05-config-%d-%d.toml", os.Getpid(), idx))
		if err := os.WriteFile(path, []byte(inv.File), 0o644); err != nil {
			return nil, "harness: " + err.Error()
		}
		defer os.Remove(path)
		args = append(args, "--config-path", path)
	}
	ctx, cancel := context.WithTimeout(context.Background(), watchdog) // the binary exits at once
	defer cancel()
	cmd := exec.CommandContext(ctx, bin, args...)
	for _, e := range os.Environ() {
		if !strings.HasPrefix(e, "GSD_") && !strings.HasPrefix(e, "GOSTATSD_") && !strings.HasPrefix(e, "GORACE=") {
			cmd.Env = append(cmd.Env, e)
		}
	}
	cmd.Env = append(cmd.Env, "GOSTATSD_VERIF_DUMP_SERVER=1")
	cmd.Env = append(cmd.Env, inv.Env...)
	var stdout, stderr bytes.Buffer
	cmd.Stdout, cmd.Stderr = &stdout, &stderr
	err := cmd.Run()
	if ctx.Err() != nil {
		return nil, "watchdog: the binary did not exit"
	}
	for _, line := range strings.Split(stdout.String(), "\n") {
		if strings.HasPrefix(line, "{") {
			var d dumped
			if json.Unmarshal([]byte(line), &d) == nil {
				return &d, ""
			}
		}
	}
	tail := stderr.String()
	if len(tail) > 300 {
		tail = tail[len(tail)-300:]
	}
	return nil, fmt.Sprintf("no dump on stdout (exit: %v): %s", err, tail)
}

// ---------------------------------------------------------------------------------------------
// the running server

type seenSeries struct {
	Source string
	Tags   []string
}

// serverBackend records, for every counter it is sent, source and tags, and the latest parser.bad_lines_seen.
type serverBackend struct {
	mu       sync.Mutex
	calls    int
	series   map[string]seenSeries
	events   map[string]string // title -> source
	badLines float64
	badSeen  bool
	badKeys  int // series named *.parser.bad_lines_seen in the flush that carried it last
}

func (b *serverBackend) Name() string { return "verif-c05-server" }
func (b *serverBackend) SendMetricsAsync(ctx context.Context, mm *gostatsd.MetricMap, cb gostatsd.SendCallback) {
	got := map[string]seenSeries{}
	mm.Counters.Each(func(name, tk string, c gostatsd.Counter) {
		if strings.Contains(name, "sv") && strings.HasSuffix(name, ".c") {
			t := append([]string(nil), c.Tags...)
			sort.Strings(t)
			got[name+"|"+tk] = seenSeries{Source: string(c.Source), Tags: t}
		}
	})
	bad, badKeys := 0.0, 0
	mm.Gauges.Each(func(name, tk string, g gostatsd.Gauge) {
		if strings.HasSuffix(name, "parser.bad_lines_seen") {
			bad = g.Value
			badKeys++
		}
	})
	b.mu.Lock()
	for k, v := range got {
		b.series[k] = v
	}
	if badKeys > 0 {
		b.badLines, b.badSeen, b.badKeys = bad, true, badKeys
	}
	b.calls++ // published last: a waiter that sees the call sees its data
	b.mu.Unlock()
	cb(nil)
}
func (b *serverBackend) SendEvent(ctx context.Context, e *gostatsd.Event) error {
	b.mu.Lock()
	b.events[e.Title] = string(e.Source)
	b.mu.Unlock()
	return nil
}
func (b *serverBackend) find(name string) (seenSeries, int) {
	b.mu.Lock()
	defer b.mu.Unlock()
	var out seenSeries
	n := 0
	for k, v := range b.series {
		if strings.HasPrefix(k, name+"|") {
			out = v
			n++
		}
	}
	return out, n
}
func (b *serverBackend) count() (series, calls int) {
	b.mu.Lock()
	defer b.mu.Unlock()
	return len(b.series), b.calls
}
func (b *serverBackend) bad() (float64, bool, int) {
	b.mu.Lock()
	defer b.mu.Unlock()
	return b.badLines, b.badSeen, b.badKeys
}

type serverLine struct {
	Name string   `json:"name"` // without namespace
	Tags []string `json:"tags"`
	IP   string   `json:"ip"`
}

type serverScript struct {
	Datagrams []feedItem
	Lines     []serverLine
	Bad       int
	Events    int
}

var hostTagPool = [][]string{nil, {"t:1"}, {"host:h1"}, {"t:1", "host:h1"}, {"host:h2", "u:2", "host:h1"}, {"a", "b"}, {"hostx:1", "host:h3"}, {"HOST:h9"}}

func genScript(rng *rand.Rand, k, n int) *serverScript {
	s := &serverScript{}
	for i := 0; i < n; i++ {
		ip := fmt.Sprintf("10.8.0.%d", 1+rng.Intn(3))
		var lines []string
		for j, m := 0, 1+rng.Intn(6); j < m; j++ {
			switch c := rng.Intn(10); {
			case c < 5 || j == 0:
				name := fmt.Sprintf("sv%dd%dl%d.c", k, i, j)
				tags := hostTagPool[rng.Intn(len(hostTagPool))]
				l := name + ":1|c"
				if tags != nil {
					l += "|#" + strings.Join(tags, ",")
				}
				lines = append(lines, l)
				s.Lines = append(s.Lines, serverLine{Name: name, Tags: tags, IP: ip})
			case c < 8:
				lines = append(lines, []string{fmt.Sprintf("bad%dd%dl%d", k, i, j), "x:1|q", "", ":1|c", "x:nan|g", "_e{9,9}:a|b"}[rng.Intn(6)])
				s.Bad++
			default:
				title := fmt.Sprintf("ev%dd%dl%d", k, i, j)
				lines = append(lines, fmt.Sprintf("_e{%d,1}:%s|x|d:5", len(title), title))
				s.Events++
			}
		}
		msg := strings.Join(lines, "\n")
		if lines[len(lines)-1] == "" || rng.Intn(2) == 0 {
			msg += "\n" // (a final empty line stays a line)
		}
		s.Datagrams = append(s.Datagrams, feedItem{msg: []byte(msg), addr: &net.UDPAddr{IP: net.ParseIP(ip), Port: 40002}})
	}
	return s
}

type serverCase struct {
	Index      int         `json:"index"`
	Invocation *invocation `json:"invocation,omitempty"`
	Dumped     *dumped     `json:"constructed,omitempty"`
	Readers    int         `json:"readers"`
	Workers    int         `json:"workers"`
	Datagrams  int         `json:"datagrams"`
}

// runServer runs one server on the script. stage "" = completed; otherwise the stage at which it got stuck.
func runServer(r *mon.Run, sc *serverCase, inv *invocation, d *dumped, script *serverScript) (stage string) {
	be := &serverBackend{series: map[string]seenSeries{}, events: map[string]string{}}
	srv := &statsd.Server{
		Backends:              []gostatsd.Backend{be},
		ExpiryIntervalCounter: time.Minute, ExpiryIntervalGauge: time.Minute, ExpiryIntervalSet: time.Minute, ExpiryIntervalTimer: time.Minute,
		FlushInterval: 20 * time.Millisecond, MaxReaders: sc.Readers, MaxParsers: d.MaxParsers, MaxWorkers: sc.Workers, MaxQueueSize: 64, MaxConcurrentEvents: 8,
		IgnoreHost: d.IgnoreHost, Namespace: d.Namespace, InternalNamespace: "statsd",
		EstimatedTags: 2, StatserType: gostatsd.StatserInternal, PercentThreshold: []float64{90}, ReceiveBatchSize: 1, ServerMode: "standalone",
		DisableInternalEvents: true, Viper: viper.New(),
	}
	sn := &scriptNet{feed: make(chan feedItem, 8), closed: make(chan struct{})}
	ctx, cancel := context.WithCancel(context.Background())
	done := make(chan struct{})
	go func() {
		defer close(done)
		_ = srv.RunWithCustomSocket(ctx, func() (net.PacketConn, error) { return scriptConn{sn}, nil })
	}()
	defer func() {
		cancel()
		select {
		case <-done:
		case <-time.After(watchdog / 4):
			r.Inconclusive("server-did-not-stop")
		}
	}()
	for _, dg := range script.Datagrams {
		t := time.NewTimer(watchdog / 2)
		select {
		case sn.feed <- dg:
			t.Stop()
		case <-t.C:
			return "datagrams-not-read"
		}
	}
	// every line that must be accepted comes out of a flush
	want := len(script.Lines)
	if !mon.WaitUntil(watchdog/2, func() bool { n, _ := be.count(); return n >= want }) {
		return "lines-not-flushed"
	}
	// (a) source and tags, by the meaning of the configuration text
	detail := fmt.Sprintf("configuration %v env %v file %q (ignore-host=%v namespace=%q max-parsers=%d), constructed server: %+v", inv.Args, inv.Env, inv.File, inv.IgnoreHost, inv.Namespace, inv.Parsers, *d)
	checked := 0
	for _, l := range script.Lines {
		name := l.Name
		if inv.Namespace != "" {
			name = inv.Namespace + "." + name
		}
		got, n := be.find(name)
		if n != 1 {
			r.Violation("server-line-series", fmt.Sprintf("line %s|#%s from %s: %d series named %q at the backend; %s", l.Name, strings.Join(l.Tags, ","), l.IP, n, name, detail), sc)
			continue
		}
		wantTags, wantSource, sourceDefined := append([]string(nil), l.Tags...), l.IP, true
		if inv.IgnoreHost {
			sourceDefined = false // without a host: tag the statement does not say what the source is
			for i, t := range wantTags {
				if strings.HasPrefix(t, "host:") {
					wantSource, sourceDefined = t[5:], true
					wantTags = append(wantTags[:i:i], wantTags[i+1:]...)
					break
				}
			}
		}
		sort.Strings(wantTags)
		checked++
		if sourceDefined && got.Source != wantSource {
			r.Violation("server-ignore-host:source", fmt.Sprintf("line %s|#%s from %s has source %q at the backend, want %q; %s", l.Name, strings.Join(l.Tags, ","), l.IP, got.Source, wantSource, detail), sc)
		} else if strings.Join(got.Tags, ",") != strings.Join(wantTags, ",") {
			r.Violation("server-ignore-host:tags", fmt.Sprintf("line %s|#%s from %s has tags %q at the backend, want %q; %s", l.Name, strings.Join(l.Tags, ","), l.IP, got.Tags, wantTags, detail), sc)
		}
	}
	r.Event("server_lines_checked", checked)
	// (b) the server's bad-line count. The parser reports it on a flush notification, the internal statser hands it to the
	// pipeline on the next one, the flush after that sends it: wait for the value, bounded by a number of flushes.
	if script.Bad > 0 {
		_, c0 := be.count()
		limit := c0 + 80*sc.Workers
		ok := mon.WaitUntil(watchdog/2, func() bool {
			v, seen, _ := be.bad()
			_, c := be.count()
			return (seen && v == float64(script.Bad)) || c >= limit
		})
		v, seen, keys := be.bad()
		switch {
		case !ok:
			return "flushes-stopped"
		case !seen:
			r.Violation("server-bad-lines-not-reported", fmt.Sprintf("%d rejected lines were sent, parser.bad_lines_seen never reached the backend in 80 flushes; %d parser goroutines; %s", script.Bad, d.MaxParsers, detail), sc)
		case v != float64(script.Bad):
			r.Violation("server-bad-lines-count", fmt.Sprintf("%d rejected lines were sent in %d datagrams, the server reports parser.bad_lines_seen = %v (%d series of that name) after 80 more flushes; %d parser goroutines; %s", script.Bad, len(script.Datagrams), v, keys, d.MaxParsers, detail), sc)
		}
		r.Event("server_bad_line_counts_checked", 1)
	}
	return ""
}

type binResult struct {
	bin string
	err error
}

func serverVariant(r *mon.Run, binReady <-chan binResult) {
	n := r.N(24, 480)
	shard, shards := r.Shard()
	rng := r.Rand("server")
	br := <-binReady
	bin, berr := br.bin, br.err
	if berr != nil {
		r.Inconclusive("server-variant:binary-not-built")
		r.Extra("server_binary_error", berr.Error())
	}
	for i := 0; i < n; i++ {
		k := i*shards + shard
		inv := genInvocation(rng)
		sc := &serverCase{Index: k, Invocation: inv, Readers: 1 + rng.Intn(2), Workers: 1 + rng.Intn(3), Datagrams: r.Pick(40, 80)}
		script := genScript(rng, k, sc.Datagrams)
		r.Case("server idx=%d args=%v env=%v file=%q readers=%d workers=%d", k, inv.Args, inv.Env, inv.File, sc.Readers, sc.Workers)
		d := &dumped{IgnoreHost: inv.IgnoreHost, Namespace: inv.Namespace, MaxParsers: inv.Parsers, Aligned: inv.Aligned}
		composed := "direct"
		if berr == nil {
			got, msg := construct(bin, k, inv)
			if got == nil {
				r.Inconclusive("server-variant:no-dump")
				r.Extra("server_dump_error", msg)
				continue
			}
			d, composed = got, "binary"
			if d.MaxParsers < 1 || d.MaxParsers > 64 {
				r.Violation("server-config:max-parsers", fmt.Sprintf("configuration %v env %v file %q asks for %d parsers, the constructed server has %d", inv.Args, inv.Env, inv.File, inv.Parsers, d.MaxParsers), sc)
				continue
			}
		}
		sc.Dumped = d
		stage := runServer(r, sc, inv, d, script)
		if stage != "" {
			// bounded progress of a deterministic script: confirm on a fresh server before reporting
			if again := runServer(r, sc, inv, d, script); again != "" {
				r.Violation("server-stuck:"+again, fmt.Sprintf("twice: the server did not get past %q within the watchdog; configuration %v env %v file %q, constructed %+v", again, inv.Args, inv.Env, inv.File, *d), sc)
			} else {
				r.Inconclusive("server-watchdog-not-reproduced:" + stage)
			}
		}
		r.Eval(1)
		r.Event("server_runs_"+composed, 1)
		r.Nontrivial(fmt.Sprintf("server:%s:ih=%v:aligned=%v:ns=%v:parsers=%d", composed, inv.IgnoreHost, inv.Aligned, inv.Namespace != "", inv.Parsers))
		if r.WantSample() && k%7 == 2 {
			r.Sample(map[string]interface{}{"variant": "server", "case": sc, "lines": len(script.Lines), "rejected_lines": script.Bad})
		}
	}
}
