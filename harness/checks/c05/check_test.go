//go:build verif

// C05 — lines of a datagram are independent and parsed data never aliases the buffer.
//
// Every case is a batch of 1..3 datagrams composed of valid, invalid, normalisation-needing and empty lines.
// Parser A (a real DatagramParser.Run goroutine) gets the batch in recycled 64 KiB buffers whose DoneFunc
// overwrites the whole buffer with 0xAA the moment the parser releases it. Parser B (identically configured)
// gets every line alone in a private buffer that is never touched. The oracle is the harness' own fold
// (ref.Folded: counters add, timers append, sets unite, gauges take the last value, first tags/source win) of
// B's per-line results in line order, compared series by series and event by event with what A dispatched;
// parser.* counters of both parsers are read through a spy Statser. Lines made by the harness' own builder
// additionally carry their expected name / value / tags / source / timestamp (independent of any parser).
package c05

import (
	"bytes"
	"context"
	"encoding/hex"
	"fmt"
	"io"
	"math/rand"
	"sort"
	"strconv"
	"strings"
	"sync"
	"sync/atomic"
	"testing"
	"time"

	"github.com/sirupsen/logrus"

	"github.com/atlassian/gostatsd"
	"github.com/atlassian/gostatsd/pkg/stats"
	"github.com/atlassian/gostatsd/pkg/statsd"

	"verif/gen"
	"verif/mon"
	"verif/ref"
)

const watchdog = 120 * time.Second

const bufSize = 0xffff // what the receiver allocates per datagram

// ---------------------------------------------------------------------------------------------
// observers

// spyStatser remembers the last value reported per name (cumulative: Report is read without resetting).
type spyStatser struct {
	stats.NullStatser
	mu      sync.Mutex
	flushes int64
	vals    map[string]float64
}

func (s *spyStatser) Report(name string, value *uint64, tags gostatsd.Tags) {
	v := atomic.LoadUint64(value)
	s.mu.Lock()
	s.vals[name] = float64(v)
	if name == "parser.metrics_received" || name == "receiver.datagrams_received" {
		s.flushes++ // first call of a RunMetricsContext round (a spy serves one parser or one receiver)
	}
	s.mu.Unlock()
}
func (s *spyStatser) Gauge(name string, value float64, tags gostatsd.Tags) {
	s.mu.Lock()
	s.vals[name] = value
	s.mu.Unlock()
}
func (s *spyStatser) WithTags(tags gostatsd.Tags) stats.Statser { return s }
func (s *spyStatser) rounds() int64 {
	s.mu.Lock()
	defer s.mu.Unlock()
	return s.flushes
}

type counters struct{ metrics, events, bad uint64 }

func (c counters) sub(o counters) counters {
	return counters{c.metrics - o.metrics, c.events - o.events, c.bad - o.bad}
}

// capture is the PipelineHandler at the end of a parser; it keeps what was dispatched, in order.
type capture struct {
	mu     sync.Mutex
	maps   []*gostatsd.MetricMap
	events []*gostatsd.Event
	nMaps  atomic.Int64
}

func (h *capture) EstimatedTags() int { return 0 }
func (h *capture) WaitForEvents()     {}
func (h *capture) DispatchMetricMap(ctx context.Context, mm *gostatsd.MetricMap) {
	h.mu.Lock()
	h.maps = append(h.maps, mm)
	h.mu.Unlock()
	h.nMaps.Add(1)
}
func (h *capture) DispatchEvent(ctx context.Context, e *gostatsd.Event) {
	h.mu.Lock()
	h.events = append(h.events, e)
	h.mu.Unlock()
}
func (h *capture) take() ([]*gostatsd.MetricMap, []*gostatsd.Event) {
	h.mu.Lock()
	defer h.mu.Unlock()
	m, e := h.maps, h.events
	h.maps, h.events = nil, nil
	return m, e
}

// bufPool recycles receive buffers the way the receiver's pool does (last released, first reused).
type bufPool struct {
	mu   sync.Mutex
	free [][]byte
}

var scribble = bytes.Repeat([]byte{0xAA}, bufSize)

func (p *bufPool) get() []byte {
	p.mu.Lock()
	defer p.mu.Unlock()
	if n := len(p.free); n > 0 {
		b := p.free[n-1]
		p.free = p.free[:n-1]
		return b
	}
	return make([]byte, bufSize)
}

// release is what a DoneFunc does: the parser said it is finished with the buffer, so every byte of it is
// overwritten before it goes back to the pool.
func (p *bufPool) release(b []byte) {
	b = b[:bufSize]
	copy(b, scribble)
	p.mu.Lock()
	p.free = append(p.free, b)
	p.mu.Unlock()
}

type config struct {
	NS         string `json:"namespace"`
	IgnoreHost bool   `json:"ignore_host"`
	EstTags    int    `json:"estimated_tags"`
}

var configs = []config{{"", false, 0}, {"", true, 0}, {"ns", false, 2}, {"ns", true, 4}, {"a.b", true, 0}, {"stats_-x", false, 8}}

// rig is one running parser with its observers.
type rig struct {
	cfg    config
	in     chan []*statsd.Datagram
	h      *capture
	spy    *spyStatser
	ctx    context.Context
	cancel context.CancelFunc
	last   counters
}

func quietLogger() *logrus.Logger {
	l := logrus.New()
	l.SetOutput(io.Discard)
	return l
}

func newRig(cfg config, in chan []*statsd.Datagram, h *capture) *rig {
	g := &rig{cfg: cfg, in: in, h: h, spy: &spyStatser{vals: map[string]float64{}}}
	ctx, cancel := context.WithCancel(context.Background())
	g.ctx, g.cancel = stats.NewContext(ctx, g.spy), cancel
	dp := statsd.NewDatagramParser(in, cfg.NS, cfg.IgnoreHost, cfg.EstTags, h, 0, false, quietLogger())
	go dp.Run(g.ctx)
	go dp.RunMetricsContext(g.ctx)
	return g
}

// push hands a batch to the parser and returns when it has been processed completely: the channel is
// unbuffered, so the empty fence batch is only taken once the loop iteration of the real batch is over.
func (g *rig) push(batch []*statsd.Datagram) bool {
	t := time.NewTimer(watchdog)
	defer t.Stop()
	for _, b := range [][]*statsd.Datagram{batch, nil} {
		select {
		case g.in <- b:
		case <-t.C:
			return false
		}
	}
	return true
}

// read returns the cumulative parser.* values: a flush round that started after the call is complete once
// the next one has started.
func (g *rig) read() (counters, bool) {
	s0 := g.spy.rounds()
	ok := mon.WaitUntil(watchdog, func() bool {
		g.spy.NotifyFlush(g.ctx, 0)
		return g.spy.rounds() >= s0+2
	})
	g.spy.mu.Lock()
	defer g.spy.mu.Unlock()
	return counters{uint64(g.spy.vals["parser.metrics_received"]), uint64(g.spy.vals["parser.events_received"]), uint64(g.spy.vals["parser.bad_lines_seen"])}, ok
}

// ---------------------------------------------------------------------------------------------
// lines

// known is what the harness expects of a line it built itself, independent of any parser.
type known struct {
	Name  string   `json:"name"` // normalised, without namespace
	Type  int      `json:"type"`
	Value float64  `json:"value"`
	Str   string   `json:"str,omitempty"`
	Rate  float64  `json:"rate"`
	Tags  []string `json:"tags"`
}

type line struct {
	text  []byte
	known *known // nil: outcome not predicted
	kind  string // generator that made it
}

var namePool = []struct{ raw, want string }{
	{"a", "a"}, {"b.c", "b.c"}, {"req_count", "req_count"}, {"x-y", "x-y"}, {"g", "g"},
	{"a!", "a"}, {"b .c", "b_.c"}, {"p/q", "p-q"}, {"n!@#m", "nm"}, {"t\tu", "t_u"}, {"\xc3\xa9.t", ".t"}, {"(g)", "g"}, {"x//y", "x--y"}, {"r e q", "r_e_q"},
}

var tagPool = [][]string{
	nil, nil, {"t:1"}, {"t:1", "u:2"}, {"u:2", "t:1"}, {"host:h1"}, {"t:1", "host:h1"}, {"host:h1", "t:1"}, {"host:h1", "host:h2"},
	{"host:"}, {"hostx:1"}, {"xhost:h"}, {"a", "host:h2", "b", "host:h1", "c"}, {"HOST:h9", "env:p"}, {"k:v:w", "é:ü"},
}

// buildLine makes a valid metric line from the small pools, so that series collide inside a datagram.
func buildLine(rng *rand.Rand, prefix string) line {
	n := namePool[rng.Intn(len(namePool))]
	k := &known{Name: prefix + n.want, Rate: 1}
	var sb strings.Builder
	sb.WriteString(prefix)
	sb.WriteString(n.raw)
	sb.WriteByte(':')
	switch rng.Intn(5) {
	case 0:
		k.Type = gen.Counter
		v := rng.Intn(200) - 50
		k.Value = float64(v)
		sb.WriteString(strconv.Itoa(v) + "|c")
	case 1:
		k.Type = gen.Gauge
		k.Value = float64(rng.Intn(2000)) / 8
		sb.WriteString(strconv.FormatFloat(k.Value, 'f', -1, 64) + "|g")
	case 2:
		k.Type = gen.Timer
		k.Value = float64(rng.Intn(100000)) / 16
		sb.WriteString(strconv.FormatFloat(k.Value, 'f', -1, 64) + "|ms")
	case 3:
		k.Type = gen.Timer
		k.Value = float64(rng.Intn(1000))
		sb.WriteString(strconv.FormatFloat(k.Value, 'f', -1, 64) + "|h")
	default:
		k.Type = gen.Set
		k.Str = []string{"u1", "u2", "u3", "", "é", "a b"}[rng.Intn(6)]
		sb.WriteString(k.Str + "|s")
	}
	tags := tagPool[rng.Intn(len(tagPool))]
	rate := []float64{1, 1, 0.5, 0.25, 0.125}[rng.Intn(5)]
	sections := []string{}
	if rate != 1 {
		k.Rate = rate
		sections = append(sections, "@"+strconv.FormatFloat(rate, 'f', -1, 64))
	}
	if tags != nil {
		k.Tags = append([]string(nil), tags...)
		sections = append(sections, "#"+strings.Join(tags, ","))
	}
	if rng.Intn(8) == 0 {
		sections = append(sections, "c:container")
	}
	rng.Shuffle(len(sections), func(i, j int) { sections[i], sections[j] = sections[j], sections[i] })
	for _, s := range sections {
		sb.WriteString("|" + s)
	}
	kind := "built"
	if n.raw != n.want {
		kind = "built-normalised"
	}
	return line{text: []byte(sb.String()), known: k, kind: kind}
}

var surelyBad = []string{"x", "x:", "x:1", "x:1|", "x:1|q", ":1|c", "x:nan|g", "x:1|c|@0", "x:1|c|@x", "x:abc|ms", "_e{5,3}:ab|c", "_", "_e", "_x:1|c", "a:1|mz", "!!!:1|c",
	"_e{1,1}:a|b|p:urgent", "_e{1,1}:a|b|t:fatal", "_e{2,1}:a|b", "a:1|c|#t:1|@", "no separator at all", "_e{5,4294967290}:abcde|xyz"}

func mutate(rng *rand.Rand, b []byte) []byte {
	if len(b) == 0 {
		return b
	}
	out := append([]byte(nil), b...)
	i := rng.Intn(len(out))
	switch rng.Intn(4) {
	case 0:
		out = append(out[:i], out[i+1:]...)
	case 1:
		out[i] = []byte{':', '|', '@', '#', ',', 'x', '0', ' ', '/', '!', '_', 0xff}[rng.Intn(12)]
	case 2:
		out = out[:i]
	default:
		out = append(out[:i+1], append([]byte{out[i]}, out[i+1:]...)...)
	}
	return bytes.ReplaceAll(out, []byte{'\n'}, []byte{'.'})
}

func randomLine(rng *rand.Rand) line {
	switch k := rng.Intn(40); {
	case k < 14:
		return buildLine(rng, "")
	case k < 17:
		return line{text: []byte(gen.Metric(rng, gen.LineOpts{}).Line), kind: "derived"}
	case k < 20:
		return line{text: []byte(gen.Event(rng, gen.LineOpts{}).Line), kind: "derived-event"}
	case k < 22:
		return line{text: []byte(fmt.Sprintf("_e{%d,%d}:%s|%s%s", 5, 4, "title", "text", []string{"", "|#t:1,host:h1", "|d:12345|h:evhost", "|p:low|t:error|k:key"}[rng.Intn(4)])), kind: "event"}
	case k < 27:
		return line{kind: "empty"}
	case k < 31:
		return line{text: []byte(surelyBad[rng.Intn(len(surelyBad))]), kind: "bad"}
	case k < 35:
		return line{text: mutate(rng, buildLine(rng, "").text), kind: "mutated"}
	case k < 37:
		return line{text: mutate(rng, []byte(gen.Event(rng, gen.LineOpts{}).Line)), kind: "mutated-event"}
	case k < 39:
		return line{text: gen.RandomLine(rng, rng.Intn(4) == 0), kind: "random"}
	default:
		// a name that is nothing but deletions until the very end of the line's name part
		return line{text: []byte(strings.Repeat("!", 1+rng.Intn(30)) + "z" + strings.Repeat("#", rng.Intn(5)) + ":1|c"), kind: "junk-name"}
	}
}

// gaugeFamily returns lines that set one gauge several times (same name after normalisation, same tag set in
// any order), possibly with other lines in between; the last value is what the harness expects.
func gaugeFamily(rng *rand.Rand) ([]line, string) {
	n := namePool[rng.Intn(5)]
	variants := []string{n.raw}
	for _, o := range namePool {
		if o.want == n.want && o.raw != n.raw {
			variants = append(variants, o.raw)
		}
	}
	tagVariants := [][]string{nil}
	switch rng.Intn(3) {
	case 1:
		tagVariants = [][]string{{"t:1", "u:2"}, {"u:2", "t:1"}}
	case 2:
		tagVariants = [][]string{{"host:h1", "t:1"}, {"t:1", "host:h1"}}
	}
	k := 2 + rng.Intn(3)
	var out []line
	separated := false
	for i := 0; i < k; i++ {
		raw := variants[rng.Intn(len(variants))]
		tags := tagVariants[rng.Intn(len(tagVariants))]
		v := float64(i+1) + float64(rng.Intn(8))/8
		txt := raw + ":" + strconv.FormatFloat(v, 'f', -1, 64) + "|g"
		kn := &known{Name: n.want, Type: gen.Gauge, Value: v, Rate: 1}
		if tags != nil {
			txt += "|#" + strings.Join(tags, ",")
			kn.Tags = append([]string(nil), tags...)
		}
		out = append(out, line{text: []byte(txt), known: kn, kind: "gauge-repeat"})
		if i < k-1 && rng.Intn(2) == 0 {
			out = append(out, randomLine(rng))
			separated = true
		}
	}
	return out, fmt.Sprintf("gauge-repeat:k=%d:separated=%v:tags=%d", k, separated, len(tagVariants))
}

// datagram is one generated datagram.
type datagram struct {
	lines    []line
	trailing bool
	ip       string
	ts       int64
	note     string
}

func (d *datagram) bytes() []byte {
	var b []byte
	for i, l := range d.lines {
		if i > 0 {
			b = append(b, '\n')
		}
		b = append(b, l.text...)
	}
	if d.trailing && len(d.lines) > 0 {
		b = append(b, '\n')
	}
	return b
}

func genDatagram(rng *rand.Rand, ts int64) *datagram {
	d := &datagram{trailing: rng.Intn(2) == 0, ip: []string{"10.0.0.1", "10.0.0.2", "fe80::1", ""}[rng.Intn(4)], ts: ts}
	if rng.Intn(5) == 0 {
		d.lines, d.note = gaugeFamily(rng)
		if rng.Intn(2) == 0 {
			d.lines = append([]line{randomLine(rng)}, d.lines...)
		}
		if rng.Intn(2) == 0 {
			d.lines = append(d.lines, randomLine(rng))
		}
		return d
	}
	n := 1 + rng.Intn(8)
	if rng.Intn(6) == 0 {
		n = 9 + rng.Intn(32)
	}
	for i := 0; i < n; i++ {
		d.lines = append(d.lines, randomLine(rng))
	}
	// a final line that is empty does not exist as a line (the trailing flag covers the final newline)
	for len(d.lines) > 0 && len(d.lines[len(d.lines)-1].text) == 0 {
		if rng.Intn(2) == 0 {
			d.lines[len(d.lines)-1] = buildLine(rng, "")
		} else {
			d.lines = d.lines[:len(d.lines)-1]
			d.trailing = true // "...\n" + "\n": keep an empty line at the end observable
			d.lines = append(d.lines, line{kind: "empty"})
			break
		}
	}
	return d
}

// ---------------------------------------------------------------------------------------------
// canonical forms

type eventRec struct {
	canon string
	date  int64
}

func canonEvent(e *gostatsd.Event) eventRec {
	return eventRec{canon: fmt.Sprintf("title=%q text=%q key=%q type=%q tags=%q source=%q pri=%d alert=%d", e.Title, e.Text, e.AggregationKey, e.SourceTypeName, []string(e.Tags), string(e.Source), e.Priority, e.AlertType), date: e.DateHappened}
}

// lineResult is what parser B produced for one line alone.
type lineResult struct {
	series map[string]*ref.Series
	events []eventRec
	class  byte // 0 empty, x rejected, e event, n metric with normalised name, m metric
}

func needsNormalising(text []byte) bool {
	i := bytes.IndexByte(text, ':')
	if i < 0 {
		i = len(text)
	}
	for _, b := range text[:i] {
		if !(b >= 'a' && b <= 'z' || b >= 'A' && b <= 'Z' || b >= '0' && b <= '9' || b == '.' || b == '-' || b == '_') {
			return true
		}
	}
	return false
}

// expectSeries is the independent expectation for a built line: name with namespace, source = sender (or the
// first host: tag under ignore-host, which is removed), the datagram's timestamp.
func expectSeries(k *known, cfg config, ip string, ts int64) map[string]*ref.Series {
	dp := ref.Datapoint{Type: k.Type, Name: k.Name, Value: k.Value, Str: k.Str, Rate: k.Rate, Timestamp: ts, Source: ip}
	if cfg.NS != "" {
		dp.Name = cfg.NS + "." + k.Name
	}
	dp.Tags = append([]string(nil), k.Tags...)
	if cfg.IgnoreHost {
		dp.Source = ""
		for i, t := range dp.Tags {
			if strings.HasPrefix(t, "host:") {
				dp.Source = t[len("host:"):]
				dp.Tags = append(dp.Tags[:i:i], dp.Tags[i+1:]...)
				break
			}
		}
	}
	f := ref.NewFolded()
	f.AddDatapoint(dp)
	return f.Series
}

func firstField(diff string) string {
	// `series "k": gauge 1 want 2; ...` / `missing series "k"` / `unexpected series "k"` / `duplicate series ...`
	if strings.HasPrefix(diff, "missing") {
		return "missing-series"
	}
	if strings.HasPrefix(diff, "unexpected") {
		return "unexpected-series"
	}
	if strings.HasPrefix(diff, "duplicate") {
		return "duplicate-series"
	}
	if i := strings.LastIndex(diff, "\": "); i >= 0 {
		rest := diff[i+3:]
		w := strings.Fields(rest)
		if len(w) > 0 {
			if w[0] == "timer" || w[0] == "set" || w[0] == "sampled" {
				return w[0] + "-" + w[1]
			}
			return w[0]
		}
	}
	return "other"
}

// ---------------------------------------------------------------------------------------------
// the sequential checker

type replayDatagram struct {
	Hex string `json:"hex"`
	IP  string `json:"ip"`
	TS  int64  `json:"ts"`
}

type replayCase struct {
	Index     int              `json:"index"`
	Config    config           `json:"config"`
	Datagrams []replayDatagram `json:"datagrams"`
	Text      []string         `json:"text"`
}

type checker struct {
	r     *mon.Run
	pool  *bufPool
	a, b  map[config]*rig
	t0    int64
	prevA []*gostatsd.MetricMap    // maps of the previous case, whose buffers have been reused since
	prevS []map[string]*ref.Series // and their flattened form at the time
	prevE []*gostatsd.Event
	prevC []eventRec
}

func (c *checker) rigs(cfg config) (*rig, *rig) {
	if g, ok := c.a[cfg]; ok {
		return g, c.b[cfg]
	}
	c.a[cfg] = newRig(cfg, make(chan []*statsd.Datagram), &capture{})
	c.b[cfg] = newRig(cfg, make(chan []*statsd.Datagram), &capture{})
	return c.a[cfg], c.b[cfg]
}

func (c *checker) drop(cfg config) {
	if g, ok := c.a[cfg]; ok {
		g.cancel()
		c.b[cfg].cancel()
		delete(c.a, cfg)
		delete(c.b, cfg)
	}
}

// splitLines is the harness' own statement of what the lines of a datagram are.
func splitLines(d []byte) [][]byte {
	if len(d) == 0 {
		return nil
	}
	segs := bytes.Split(d, []byte{'\n'})
	if len(segs[len(segs)-1]) == 0 {
		segs = segs[:len(segs)-1]
	}
	return segs
}

// alone pushes one line through parser B in a private, exactly sized buffer that nobody overwrites.
func (c *checker) alone(b *rig, text []byte, ip string, ts int64, withNewline bool) (lineResult, bool) {
	var msg []byte
	if len(text) == 0 {
		msg = []byte{'\n'} // the only way to present an empty line
	} else {
		msg = append(make([]byte, 0, len(text)+1), text...)
		if withNewline {
			msg = append(msg, '\n')
		}
	}
	dg := &statsd.Datagram{IP: gostatsd.Source(ip), Msg: msg, Timestamp: gostatsd.Nanotime(ts), DoneFunc: func() {}}
	if !b.push([]*statsd.Datagram{dg}) {
		return lineResult{}, false
	}
	maps, events := b.h.take()
	res := lineResult{series: map[string]*ref.Series{}}
	for _, mm := range maps {
		for k, s := range ref.FromMap(mm) {
			res.series[k] = s
		}
	}
	for _, e := range events {
		res.events = append(res.events, canonEvent(e))
	}
	switch {
	case len(text) == 0:
		res.class = '0'
	case len(res.events) > 0:
		res.class = 'e'
	case len(res.series) == 0:
		res.class = 'x'
	case needsNormalising(text):
		res.class = 'n'
	default:
		res.class = 'm'
	}
	return res, true
}

type inDatagram struct {
	msg   []byte
	ip    string
	ts    int64
	known []*known // per line, nil when not predicted (may be shorter than the line list: replays)
	note  string
}

// run executes one case: the batch through A, every line alone through B, and all oracles.
func (c *checker) run(idx int, cfg config, batch []inDatagram, rng *rand.Rand) {
	r := c.r
	mk := func() interface{} {
		rc := &replayCase{Index: idx, Config: cfg}
		for _, d := range batch {
			rc.Datagrams = append(rc.Datagrams, replayDatagram{Hex: hex.EncodeToString(d.msg), IP: d.ip, TS: d.ts})
			rc.Text = append(rc.Text, strconv.Quote(string(d.msg)))
		}
		return rc
	}
	desc := func() string {
		var s []string
		for _, d := range batch {
			s = append(s, fmt.Sprintf("%q(from %q at %d)", d.msg, d.ip, d.ts))
		}
		return fmt.Sprintf("namespace=%q ignore-host=%v datagrams: %s", cfg.NS, cfg.IgnoreHost, strings.Join(s, " + "))
	}
	a, b := c.rigs(cfg)
	t0 := time.Now().Unix()

	// --- B: every line alone, results folded in line order by the reference model
	want := ref.NewFolded()
	var wantEvents []eventRec
	var classes []byte
	var exp counters
	nLines := 0
	for _, d := range batch {
		for li, text := range splitLines(d.msg) {
			nLines++
			res, ok := c.alone(b, text, d.ip, d.ts, rng.Intn(2) == 0)
			if !ok {
				r.Inconclusive("alone-parser-watchdog")
				c.drop(cfg)
				return
			}
			classes = append(classes, res.class)
			if len(res.series) > 1 || len(res.events) > 1 || (len(res.series) > 0 && len(res.events) > 0) {
				r.Violation("one-line-many-results", fmt.Sprintf("line %q alone produced %d series and %d events", text, len(res.series), len(res.events)), mk())
			}
			switch {
			case len(res.events) > 0:
				exp.events++
			case len(res.series) > 0:
				exp.metrics++
			default:
				exp.bad++
			}
			// independent expectation for lines of the harness' own builder
			if li < len(d.known) && d.known[li] != nil {
				es := expectSeries(d.known[li], cfg, d.ip, d.ts)
				if diff := ref.Diff(res.series, es, ref.DiffOpts{}); len(diff) > 0 {
					r.Violation("built-line:"+firstField(diff[0]), fmt.Sprintf("line %q alone (namespace %q, ignore-host %v, from %q at %d): %s", text, cfg.NS, cfg.IgnoreHost, d.ip, d.ts, strings.Join(diff, "; ")), mk())
				}
				r.Event("built_lines_checked", 1)
			}
			for _, k := range sortedKeys(res.series) {
				want.AddSeries(res.series[k])
			}
			wantEvents = append(wantEvents, res.events...)
		}
	}
	bNow, ok := b.read()
	if !ok {
		r.Inconclusive("counters-not-reported")
		c.drop(cfg)
		return
	}
	bDelta := bNow.sub(b.last)
	b.last = bNow
	if bDelta != exp {
		r.Violation("alone-counters", fmt.Sprintf("%d lines alone: %d gave a metric, %d an event, %d nothing, but parser.metrics_received/events_received/bad_lines_seen grew by %d/%d/%d; %s", nLines, exp.metrics, exp.events, exp.bad, bDelta.metrics, bDelta.events, bDelta.bad, desc()), mk())
	}

	// --- A: the batch in recycled buffers that are overwritten on release
	var released atomic.Int64
	dgs := make([]*statsd.Datagram, len(batch))
	for i, d := range batch {
		buf := c.pool.get()
		copy(buf, d.msg)
		dgs[i] = &statsd.Datagram{IP: gostatsd.Source(d.ip), Msg: buf[:len(d.msg)], Timestamp: gostatsd.Nanotime(d.ts), DoneFunc: func() {
			released.Add(1)
			c.pool.release(buf)
		}}
	}
	if !a.push(dgs) {
		r.Inconclusive("parser-watchdog")
		c.drop(cfg)
		return
	}
	r.Eval(1)
	r.Event("datagrams", len(batch))
	r.Event("lines", nLines)
	if int(released.Load()) != len(batch) {
		r.Violation("buffer-release-count", fmt.Sprintf("%d datagrams, DoneFunc called %d times; %s", len(batch), released.Load(), desc()), mk())
	}
	maps, events := a.h.take()
	var got map[string]*ref.Series
	if len(maps) == 1 {
		got = ref.FromMap(maps[0])
	} else {
		f := ref.NewFolded()
		for _, mm := range maps {
			f.AddMap(ref.FromMap(mm))
		}
		got = f.Series
	}
	if diff := ref.Diff(got, want.Series, ref.DiffOpts{}); len(diff) > 0 {
		r.Violation("datagram-vs-lines:"+firstField(diff[0]), fmt.Sprintf("parse(datagram) differs from the fold of parse(line) in line order: %s; %s", strings.Join(diff, "; "), desc()), mk())
	}
	var gotEvents []eventRec
	for _, e := range events {
		gotEvents = append(gotEvents, canonEvent(e))
	}
	t1 := time.Now().Unix()
	if len(gotEvents) != len(wantEvents) {
		r.Violation("datagram-vs-lines:event-count", fmt.Sprintf("datagram dispatched %d events, its lines alone %d; %s", len(gotEvents), len(wantEvents), desc()), mk())
	} else {
		for i := range gotEvents {
			g, w := gotEvents[i], wantEvents[i]
			// an event without d: is stamped with the wall clock by the parser: both stamps lie in the bracket of this case
			sameDate := g.date == w.date || (g.date >= t0-1 && g.date <= t1+1 && w.date >= t0-1 && w.date <= t1+1)
			if g.canon != w.canon || !sameDate {
				r.Violation("datagram-vs-lines:event-field", fmt.Sprintf("event %d of the datagram is {%s date=%d}, of the line alone {%s date=%d}; %s", i, g.canon, g.date, w.canon, w.date, desc()), mk())
				break
			}
		}
	}
	aNow, ok := a.read()
	if !ok {
		r.Inconclusive("counters-not-reported")
		c.drop(cfg)
		return
	}
	aDelta := aNow.sub(a.last)
	a.last = aNow
	switch {
	case aDelta.bad != exp.bad:
		r.Violation("bad-lines-count", fmt.Sprintf("parser.bad_lines_seen grew by %d, %d of the %d lines are rejected alone; %s", aDelta.bad, exp.bad, nLines, desc()), mk())
	case aDelta.metrics != exp.metrics:
		r.Violation("metrics-count", fmt.Sprintf("parser.metrics_received grew by %d, %d of the %d lines give a metric alone; %s", aDelta.metrics, exp.metrics, nLines, desc()), mk())
	case aDelta.events != exp.events:
		r.Violation("events-count", fmt.Sprintf("parser.events_received grew by %d, %d of the %d lines give an event alone; %s", aDelta.events, exp.events, nLines, desc()), mk())
	}

	// --- direct statements of the property on what A produced
	if len(batch) == 1 {
		d := batch[0]
		for _, k := range sortedKeys(got) {
			s := got[k]
			if s.Timestamp != d.ts {
				r.Violation("timestamp-not-receive-time", fmt.Sprintf("series %q has timestamp %d, the datagram was received at %d; %s", k, s.Timestamp, d.ts, desc()), mk())
				break
			}
			if !cfg.IgnoreHost && s.Source != d.ip {
				r.Violation("source-not-sender", fmt.Sprintf("series %q has source %q, the sender is %q; %s", k, s.Source, d.ip, desc()), mk())
				break
			}
		}
		// same gauge several times: the last line's value, stated from the built lines alone
		lastGauge := map[string]float64{}
		count := map[string]int{}
		predictable := true
		for li := range splitLines(d.msg) {
			if li >= len(d.known) || d.known[li] == nil {
				if li < len(classes) && (classes[li] == 'm' || classes[li] == 'n') {
					predictable = false // an unpredicted line was accepted and might touch the same gauge
				}
				continue
			}
			if d.known[li].Type != gen.Gauge {
				continue
			}
			for k, s := range expectSeries(d.known[li], cfg, d.ip, d.ts) {
				lastGauge[k] = s.Gauge
				count[k]++
			}
		}
		for k, v := range lastGauge {
			if count[k] < 2 || !predictable {
				continue
			}
			r.Event("repeated_gauges_checked", 1)
			if s, ok := got[k]; !ok || !ref.SameFloat(s.Gauge, v) {
				gv := "absent"
				if ok {
					gv = fmt.Sprint(s.Gauge)
				}
				r.Violation("gauge-not-last-line", fmt.Sprintf("gauge %q is set %d times in one datagram, the last line says %v, reported %s; %s", k, count[k], v, gv, desc()), mk())
			}
			if d.note != "" {
				r.Nontrivial(fmt.Sprintf("%s:ih=%v", d.note, cfg.IgnoreHost))
			}
		}
	}

	// --- what was produced earlier must not have changed now that its buffers were reused and overwritten
	for i, mm := range c.prevA {
		if diff := ref.Diff(ref.FromMap(mm), c.prevS[i], ref.DiffOpts{}); len(diff) > 0 {
			r.Violation("changed-after-buffer-reuse:"+firstField(diff[0]), fmt.Sprintf("a map dispatched for the previous datagram changed after its buffer was reused: %s", strings.Join(diff, "; ")), mk())
		}
	}
	for i, e := range c.prevE {
		if now := canonEvent(e); now != c.prevC[i] {
			r.Violation("changed-after-buffer-reuse:event", fmt.Sprintf("an event dispatched for the previous datagram changed after its buffer was reused: {%s} was {%s}", now.canon, c.prevC[i].canon), mk())
		}
	}
	c.prevA, c.prevS = maps, nil
	for _, mm := range maps {
		c.prevS = append(c.prevS, ref.FromMap(mm))
	}
	c.prevE, c.prevC = events, gotEvents

	// --- coverage accounting: adjacent lines of different classes
	nl := bytes.HasSuffix(batch[len(batch)-1].msg, []byte{'\n'})
	for i := 1; i < len(classes); i++ {
		if classes[i] != classes[i-1] {
			r.Nontrivial(fmt.Sprintf("adj:%c%c:ih=%v:ns=%v:nl=%v:batch=%d", classes[i-1], classes[i], cfg.IgnoreHost, cfg.NS != "", nl, len(batch)))
		}
	}
	if r.WantSample() && idx%211 == 17 && len(classes) >= 3 {
		r.Sample(map[string]interface{}{"config": cfg, "datagrams": mk().(*replayCase).Text, "line_classes": string(classes), "metrics": exp.metrics, "events": exp.events, "bad_lines": exp.bad, "series": len(got)})
	}
}

func sortedKeys(m map[string]*ref.Series) []string {
	out := make([]string, 0, len(m))
	for k := range m {
		out = append(out, k)
	}
	sort.Strings(out)
	return out
}

func toInput(d *datagram) inDatagram {
	in := inDatagram{msg: d.bytes(), ip: d.ip, ts: d.ts, note: d.note}
	for _, l := range d.lines {
		in.known = append(in.known, l.known)
	}
	return in
}

func sequential(r *mon.Run) {
	c := &checker{r: r, pool: &bufPool{}, a: map[config]*rig{}, b: map[config]*rig{}}
	defer func() {
		for cfg := range c.a {
			c.a[cfg].cancel()
			c.b[cfg].cancel()
		}
	}()
	rng := r.Rand("datagrams")
	n := r.N(20000, 600000)
	ts := int64(1_700_000_000_000_000_000)
	// the textbook cases first (shard 0): same gauge twice, with and without trailing newline, for every configuration
	if s, _ := r.Shard(); s == 0 {
		for i, cfg := range configs {
			for j, txt := range []string{"g:1|g\ng:2|g", "g:1|g\ng:2|g\n", "g:2|g\nbad\n\ng:1|g|#t:1\n(g):3|g", "a b:1|c\na_b:2|c\nx\n", "\n\n", "x:1|c\n\n"} {
				d := &datagram{ip: "10.9.9.9", ts: ts + int64(i*10+j)}
				in := inDatagram{msg: []byte(txt), ip: d.ip, ts: d.ts}
				for _, l := range splitLines(in.msg) {
					in.known = append(in.known, knownOf(string(l)))
				}
				in.note = "gauge-repeat:fixed"
				r.Case("fixed cfg=%+v %q", cfg, txt)
				c.run(-1-i*10-j, cfg, []inDatagram{in}, rng)
			}
		}
	}
	for i := 0; i < n; i++ {
		cfg := configs[rng.Intn(len(configs))]
		ts += int64(1 + rng.Intn(1000))
		batch := []inDatagram{toInput(genDatagram(rng, ts))}
		if rng.Intn(8) == 0 {
			for k := rng.Intn(2); k >= 0; k-- {
				// the receiver stamps a whole batch with one time; other orders are covered as well
				t2 := ts + int64(rng.Intn(3)-1)
				batch = append(batch, toInput(genDatagram(rng, t2)))
			}
		}
		var hx []string
		for _, d := range batch {
			hx = append(hx, fmt.Sprintf("%x@%s@%d", d.msg, d.ip, d.ts))
		}
		r.Case("idx=%d cfg=%+v datagrams=%s", i, cfg, strings.Join(hx, ","))
		c.run(i, cfg, batch, rng)
	}
}

// knownOf gives the expectation for the few hand written lines of the fixed cases.
func knownOf(l string) *known {
	switch l {
	case "g:1|g":
		return &known{Name: "g", Type: gen.Gauge, Value: 1, Rate: 1}
	case "g:2|g":
		return &known{Name: "g", Type: gen.Gauge, Value: 2, Rate: 1}
	case "(g):3|g":
		return &known{Name: "g", Type: gen.Gauge, Value: 3, Rate: 1}
	case "g:1|g|#t:1":
		return &known{Name: "g", Type: gen.Gauge, Value: 1, Rate: 1, Tags: []string{"t:1"}}
	case "a b:1|c":
		return &known{Name: "a_b", Type: gen.Counter, Value: 1, Rate: 1}
	case "a_b:2|c":
		return &known{Name: "a_b", Type: gen.Counter, Value: 2, Rate: 1}
	case "x:1|c":
		return &known{Name: "x", Type: gen.Counter, Value: 1, Rate: 1}
	}
	return nil
}

// ---------------------------------------------------------------------------------------------
// stress: several parsers on one input channel and one buffer pool, several producers

func stress(r *mon.Run) {
	const parsers, producers = 4, 3
	rounds := r.N(8, 64)
	perProducer := r.Pick(400, 1500)
	for round := 0; round < rounds; round++ {
		shard, _ := r.Shard()
		cfg := configs[(round+shard)%len(configs)]
		in := make(chan []*statsd.Datagram, 2)
		h := &capture{}
		pool := &bufPool{}
		var rigs []*rig
		for p := 0; p < parsers; p++ {
			rigs = append(rigs, newRig(cfg, in, h))
		}
		type expectation struct {
			f       *ref.Folded
			events  []string
			c       counters
			batches int64
			samples []string
		}
		exps := make([]*expectation, producers)
		var wg sync.WaitGroup
		var released atomic.Int64
		var sent atomic.Int64
		r.Case("stress round=%d cfg=%+v", round, cfg)
		for p := 0; p < producers; p++ {
			wg.Add(1)
			exp := &expectation{f: ref.NewFolded()}
			exps[p] = exp
			rng := r.Rand(fmt.Sprintf("stress-%d-%d", round, p))
			go func(p int) {
				defer wg.Done()
				for i := 0; i < perProducer; i++ {
					id := fmt.Sprintf("d%d_%d_%d.", round, p, i)
					ts := int64(1_800_000_000_000_000_000) + int64(round)*1_000_000 + int64(p)*100_000 + int64(i)
					ip := []string{"10.0.0.1", "10.0.0.2"}[rng.Intn(2)]
					var nb int
					var batch []*statsd.Datagram
					for nb = 1 + rng.Intn(2); nb > 0; nb-- {
						var msg []byte
						// the marker guarantees one dispatched map per batch
						lines := []line{{text: []byte(id + "marker:1|c"), known: &known{Name: id + "marker", Type: gen.Counter, Value: 1, Rate: 1}}}
						for k := rng.Intn(10); k > 0; k-- {
							switch rng.Intn(6) {
							case 0:
								lines = append(lines, line{})
							case 1:
								lines = append(lines, line{text: []byte(surelyBad[rng.Intn(len(surelyBad))])})
							case 2:
								title := id + "ev"
								lines = append(lines, line{text: []byte(fmt.Sprintf("_e{%d,2}:%s|tx|d:77|#e:1", len(title), title)), kind: "event"})
							default:
								lines = append(lines, buildLine(rng, id))
							}
						}
						rng.Shuffle(len(lines), func(i, j int) { lines[i], lines[j] = lines[j], lines[i] })
						for li, l := range lines {
							if li > 0 {
								msg = append(msg, '\n')
							}
							msg = append(msg, l.text...)
							switch {
							case l.known != nil:
								for _, s := range expectSeries(l.known, cfg, ip, ts) {
									exp.f.AddSeries(s)
								}
								exp.c.metrics++
							case l.kind == "event":
								exp.events = append(exp.events, fmt.Sprintf("%s@%s", id+"ev", ip))
								exp.c.events++
							default:
								exp.c.bad++
							}
						}
						if len(lines[len(lines)-1].text) == 0 {
							msg = append(msg, '\n') // keep the final empty line a line
						}
						if len(exp.samples) < 2 {
							exp.samples = append(exp.samples, strconv.Quote(string(msg)))
						}
						buf := pool.get()
						copy(buf, msg)
						batch = append(batch, &statsd.Datagram{IP: gostatsd.Source(ip), Msg: buf[:len(msg)], Timestamp: gostatsd.Nanotime(ts), DoneFunc: func() {
							released.Add(1)
							pool.release(buf)
						}})
					}
					sent.Add(int64(len(batch)))
					exp.batches++
					in <- batch
				}
			}(p)
		}
		done := make(chan struct{})
		go func() { wg.Wait(); close(done) }()
		select {
		case <-done:
		case <-time.After(watchdog):
			r.Inconclusive("stress-producers-watchdog")
			for _, g := range rigs {
				g.cancel()
			}
			return
		}
		var batches int64
		total := ref.NewFolded()
		var wantEvents []string
		var wantC counters
		for _, e := range exps {
			batches += e.batches
			for _, k := range sortedKeys(e.f.Series) {
				total.AddSeries(e.f.Series[k])
			}
			wantEvents = append(wantEvents, e.events...)
			wantC.metrics += e.c.metrics
			wantC.events += e.c.events
			wantC.bad += e.c.bad
		}
		// every batch holds a marker line, so it yields exactly one map; counters are added right after the dispatch
		if !mon.WaitUntil(watchdog, func() bool { return h.nMaps.Load() >= batches && released.Load() >= sent.Load() }) {
			r.Violation("stress-batches-lost", fmt.Sprintf("%d batches (%d datagrams) sent to %d parsers, %d maps dispatched and %d buffers released after %v", batches, sent.Load(), parsers, h.nMaps.Load(), released.Load(), watchdog), map[string]interface{}{"round": round, "config": cfg})
			for _, g := range rigs {
				g.cancel()
			}
			return
		}
		sum := func() (counters, bool) {
			var c counters
			for _, g := range rigs {
				v, ok := g.read()
				if !ok {
					return c, false
				}
				c.metrics += v.metrics
				c.events += v.events
				c.bad += v.bad
			}
			return c, true
		}
		var gotC counters
		readOK := true
		mon.WaitUntil(watchdog, func() bool {
			gotC, readOK = sum()
			return !readOK || (gotC.metrics >= wantC.metrics && gotC.events >= wantC.events && gotC.bad >= wantC.bad)
		})
		maps, events := h.take()
		for _, g := range rigs {
			g.cancel()
		}
		r.Eval(int(sent.Load()))
		r.Event("stress_datagrams", int(sent.Load()))
		r.Event("stress_maps", len(maps))
		if !readOK {
			r.Inconclusive("counters-not-reported")
		} else if gotC != wantC {
			r.Violation("stress-counters", fmt.Sprintf("round %d: %d parsers report metrics/events/bad = %d/%d/%d, the %d datagrams hold %d/%d/%d", round, parsers, gotC.metrics, gotC.events, gotC.bad, sent.Load(), wantC.metrics, wantC.events, wantC.bad), map[string]interface{}{"round": round, "config": cfg})
		}
		got := ref.NewFolded()
		for _, mm := range maps {
			got.AddMap(ref.FromMap(mm))
		}
		if diff := ref.Diff(got.Series, total.Series, ref.DiffOpts{}); len(diff) > 0 {
			if len(diff) > 6 {
				diff = diff[:6]
			}
			r.Violation("stress-vs-expected:"+firstField(diff[0]), fmt.Sprintf("round %d (namespace %q ignore-host %v, %d parsers on one channel, %d producers, buffers overwritten on release): %s", round, cfg.NS, cfg.IgnoreHost, parsers, producers, strings.Join(diff, "; ")), map[string]interface{}{"round": round, "config": cfg, "sample_datagrams": exps[0].samples})
		}
		var gotEvents []string
		for _, e := range events {
			if e.Text != "tx" || e.DateHappened != 77 || len(e.Tags) != 1 || e.Tags[0] != "e:1" {
				r.Violation("stress-event-field", fmt.Sprintf("event %+v: want text tx, date 77, tags [e:1]", *e), map[string]interface{}{"round": round, "config": cfg})
			}
			gotEvents = append(gotEvents, fmt.Sprintf("%s@%s", e.Title, e.Source))
		}
		sort.Strings(gotEvents)
		sort.Strings(wantEvents)
		if strings.Join(gotEvents, "\n") != strings.Join(wantEvents, "\n") {
			r.Violation("stress-events", fmt.Sprintf("round %d: %d events dispatched, %d event lines sent (or titles / sources differ)", round, len(gotEvents), len(wantEvents)), map[string]interface{}{"round": round, "config": cfg})
		}
		r.Nontrivial(fmt.Sprintf("stress:ih=%v:ns=%v", cfg.IgnoreHost, cfg.NS != ""))
	}
}

// ---------------------------------------------------------------------------------------------

func TestCheck(t *testing.T) {
	logrus.SetOutput(io.Discard)
	r := mon.Start(t, "C05")
	defer r.Finish()
	r.Rule("cases: batches of 1-3 datagrams of 1-40 lines drawn from: valid lines of a small name/tag pool (so series collide; names needing in-place normalisation, host: tags in every position, rates, all five type letters), grammar derivations of metrics and events, events, empty lines, fixed invalid lines, single-point mutations, random bytes (some with NUL), all-junk names; with and without trailing newline; 6 parser configurations (namespace x ignore-host x estimated tags); one case in five repeats one gauge 2-4 times (same name after normalisation, same tag set in any order) with other lines in between. The batch goes through parser A in recycled 64 KiB buffers overwritten with 0xAA when released; each line goes alone through an identically configured parser B in a private buffer; A must equal the reference fold of B's results in line order (series, values, tags, source, timestamp, events in order), counters of both parsers must equal the number of lines giving a metric / an event / nothing; built lines are also compared with their parser-independent expectation; everything dispatched for the previous case is re-read after its buffers were reused. Stress: 4 parsers on one channel, 3 producers, one buffer pool, per-datagram unique names, union of all maps / events / counters against the independent expectation. Receiver variant: the real DatagramReceiver (1-4 readers, batch size 1-50, its own buffer pool and DoneFunc) on a scripted PacketConn or a loopback UDP socket feeds 1-4 Run goroutines of one real parser; datagrams of 1 line to 65000 bytes in bursts, every line with a unique id; after a barrier passed by every parser goroutine the union of everything dispatched must be exactly what was sent, the parser / receiver counters exact, and every timestamp must lie between the clock reading taken immediately before its datagram was offered to the socket and the reading taken when its map reached the handler (one datagram in ten follows a 3 ms idle gap with every reader parked in a read). Back-pressure scenarios: the handler stalls in DispatchMetricMap, 1-4 further datagrams are read and held by the readers, and once receiver.datagrams_received as reported to the spy Statser includes them a clock reading bounds their timestamps from above (the receiver stamps before it counts), however long they then wait for the parser. Server variant: configuration text (flag / GSD_ environment / toml, keys independent) -> real cmd/gostatsd binary (constructed server) -> real statsd.Server with the configured 1-4 parser goroutines and the internal statser -> uniquely named lines; at the backend the ignore-host clause must hold by the meaning of the text and parser.bad_lines_seen must become the number of rejected lines sent. Non-trivial: a datagram in which lines of different classes (metric, normalised metric, event, rejected, empty) are adjacent, or a gauge set more than once; distinct by (adjacent class pair, ignore-host, namespace, trailing newline, batch size), (gauge repeat count, separated, tag variants, ignore-host), stress configuration, and receiver setup (socket kind, readers, batch size, parser goroutines, channel capacity, configuration), and server invocation (how built, ignore-host, flush-aligned, namespace, parsers).")
	r.Assume("an empty line between two newlines is a rejected line (current tree); a final empty segment is not a line")
	r.Assume("with ignore-host and no host: tag the source stays empty (current tree; the statement is silent)")
	r.Assume("the unbuffered input channel makes 'the batch before the fence is completely processed' observable")

	if p := r.ReplayPayload(); p != nil {
		replay(t, r, p)
		return
	}
	// the binary of cmd/gostatsd for the server variant is built while the other parts run
	binReady := make(chan binResult, 1)
	go func() { b, err := buildBinary(); binReady <- binResult{b, err} }()
	t0 := time.Now()
	sequential(r)
	t1 := time.Now()
	stress(r)
	t2 := time.Now()
	receiverVariant(r)
	t3 := time.Now()
	serverVariant(r, binReady)
	r.Extra("server_s", time.Since(t3).Seconds())
	// measured cost per part, summed over the shards (evidence only)
	r.Extra("sequential_s", t1.Sub(t0).Seconds())
	r.Extra("stress_s", t2.Sub(t1).Seconds())
	r.Extra("receiver_s", t3.Sub(t2).Seconds())
}

func replay(t *testing.T, r *mon.Run, p []byte) {
	r.Nontrivial("replay-a")
	r.Nontrivial("replay-b")
	cs, ok := mon.ReplayCase(p, &replayCase{}).(*replayCase)
	if !ok || cs == nil || len(cs.Datagrams) == 0 {
		t.Skip("no case in replay file (stress rounds replay by seed)")
	}
	c := &checker{r: r, pool: &bufPool{}, a: map[config]*rig{}, b: map[config]*rig{}}
	var batch []inDatagram
	for _, d := range cs.Datagrams {
		msg, _ := hex.DecodeString(d.Hex)
		in := inDatagram{msg: msg, ip: d.IP, ts: d.TS}
		for _, l := range splitLines(msg) {
			in.known = append(in.known, knownOf(string(l)))
		}
		batch = append(batch, in)
	}
	c.run(cs.Index, cs.Config, batch, r.Rand("replay"))
}
