//go:build verif

// C05, receiver variant, back-pressure scenarios — a *logical* upper bound for the receive time.
//
// The receiver stamps a datagram right after its read has returned and only then adds it to
// receiver.datagrams_received, which RunMetricsContext reports on a flush notification. So once the spy
// Statser has been told a count that includes datagram X, the timestamp of X has been taken (program order on
// the receiver goroutine, then the atomic counter), and a clock reading made after that is an upper bound for
// it — however long X then waits for a parser. The scenario makes X wait: the capturing handler stalls inside
// DispatchMetricMap on datagram N (so the only parser goroutine is busy), datagrams N+1.. are offered, the
// receiver reads them and blocks handing them to the unbuffered channel, the harness polls flush
// notifications until the count includes them, reads the clock (upper), releases the stall, and every metric
// of N+1.. must satisfy lower <= Timestamp <= upper, with lower read immediately before the datagram was
// offered. No time tolerance on either side; every wait is on a logical condition under a watchdog.
package c05

import (
	"context"
	"errors"
	"fmt"
	"math/rand"
	"net"
	"strings"
	"sync"
	"time"

	"github.com/atlassian/gostatsd"
	"github.com/atlassian/gostatsd/pkg/stats"
	"github.com/atlassian/gostatsd/pkg/statsd"

	"verif/mon"
	"verif/ref"
)

// stallCapture is a capturing handler that can be told to block inside DispatchMetricMap when a map holds a
// counter whose name contains a marker.
type stallCapture struct {
	ctx context.Context

	mu      sync.Mutex
	maps    []timedMap
	events  int
	marker  string
	stalled chan struct{}
	release chan struct{}
}

func (h *stallCapture) EstimatedTags() int { return 0 }
func (h *stallCapture) WaitForEvents()     {}
func (h *stallCapture) DispatchEvent(ctx context.Context, e *gostatsd.Event) {
	h.mu.Lock()
	h.events++
	h.mu.Unlock()
}
func (h *stallCapture) DispatchMetricMap(ctx context.Context, mm *gostatsd.MetricMap) {
	at := time.Now().UnixNano()
	h.mu.Lock()
	marker, stalled, release := h.marker, h.stalled, h.release
	h.mu.Unlock()
	if marker != "" {
		hit := false
		mm.Counters.Each(func(name, tk string, c gostatsd.Counter) {
			if strings.Contains(name, marker) {
				hit = true
			}
		})
		if hit {
			close(stalled)
			select {
			case <-release:
			case <-h.ctx.Done(): // the scenario is over, whatever happened
			}
		}
	}
	h.mu.Lock()
	h.maps = append(h.maps, timedMap{mm, at})
	h.mu.Unlock()
}

// arm makes the next map that holds the marker stall; it returns the channels to wait on and to release with.
func (h *stallCapture) arm(marker string) (stalled, release chan struct{}) {
	h.mu.Lock()
	defer h.mu.Unlock()
	h.marker, h.stalled, h.release = marker, make(chan struct{}), make(chan struct{})
	return h.stalled, h.release
}

// seen counts the stored maps that hold a counter whose name contains s.
func (h *stallCapture) seen(s string) int {
	h.mu.Lock()
	defer h.mu.Unlock()
	n := 0
	for _, tm := range h.maps {
		hit := false
		tm.mm.Counters.Each(func(name, tk string, c gostatsd.Counter) {
			if strings.Contains(name, s) {
				hit = true
			}
		})
		if hit {
			n++
		}
	}
	return n
}

func (h *stallCapture) take() []timedMap {
	h.mu.Lock()
	defer h.mu.Unlock()
	m := h.maps
	h.maps = nil
	return m
}

type stallSetup struct {
	Mode    string `json:"mode"`
	Readers int    `json:"readers"`
	Batch   int    `json:"receive_batch_size"`
	Config  config `json:"config"`
	Round   int    `json:"round"`
	Cycles  int    `json:"cycles"`
}

// stallScenario runs a few stall cycles on one receiver -> parser pipeline. It reports udpBad like receiverRound.
func stallScenario(r *mon.Run, rng *rand.Rand, su stallSetup, udpIPs []string) (udpBad bool) {
	cfg := su.Config
	r.Case("receiver-stall %+v", su)
	base, cancel := context.WithCancel(context.Background())
	defer cancel()
	pSpy, rSpy := &spyStatser{vals: map[string]float64{}}, &spyStatser{vals: map[string]float64{}}
	pCtx, rCtx := stats.NewContext(base, pSpy), stats.NewContext(base, rSpy)
	h := &stallCapture{ctx: base}
	datagrams := make(chan []*statsd.Datagram) // unbuffered, as gostatsd wires it
	dp := statsd.NewDatagramParser(datagrams, cfg.NS, cfg.IgnoreHost, cfg.EstTags, h, 0, false, quietLogger())
	go dp.Run(pCtx) // one parser goroutine: while the handler stalls, nothing is taken off the channel

	ips := []string{"10.7.1.1", "10.7.1.2"}
	var offer func(msg []byte, ip string) error
	var sf statsd.SocketFactory
	if su.Mode == "udp" {
		ips = udpIPs
		server, err := net.ListenUDP("udp4", &net.UDPAddr{IP: net.ParseIP("127.0.0.1")})
		if err != nil {
			r.Event("receiver_udp_unavailable", 1)
			return true
		}
		clients := map[string]*net.UDPConn{}
		for _, ip := range udpIPs {
			c, err := net.DialUDP("udp4", &net.UDPAddr{IP: net.ParseIP(ip)}, server.LocalAddr().(*net.UDPAddr))
			if err != nil {
				_ = server.Close()
				r.Event("receiver_udp_unavailable", 1)
				return true
			}
			defer c.Close()
			clients[ip] = c
		}
		sf = func() (net.PacketConn, error) { return server, nil }
		offer = func(msg []byte, ip string) error { _, err := clients[ip].Write(msg); return err }
	} else {
		sn := &scriptNet{feed: make(chan feedItem, 16), closed: make(chan struct{})}
		sf = func() (net.PacketConn, error) { return scriptConn{sn}, nil }
		offer = func(msg []byte, ip string) error {
			t := time.NewTimer(watchdog)
			defer t.Stop()
			select {
			case sn.feed <- feedItem{msg: msg, addr: &net.UDPAddr{IP: net.ParseIP(ip), Port: 40001}}:
				return nil
			case <-t.C:
				return errors.New("feed full")
			}
		}
	}
	recv := statsd.NewDatagramReceiver(datagrams, sf, su.Readers, su.Batch)
	go recv.Run(rCtx)
	go recv.RunMetricsContext(rCtx)

	// counted waits until the spy has been told a receiver.datagrams_received of at least n.
	counted := func(n int) bool {
		return mon.WaitUntil(watchdog/2, func() bool {
			rSpy.NotifyFlush(rCtx, 0)
			return rSpy.get("receiver.datagrams_received") >= uint64(n)
		})
	}
	where := fmt.Sprintf("real receiver (%s socket, %d readers, batch size %d) -> 1 parser goroutine on an unbuffered channel, namespace %q ignore-host %v", su.Mode, su.Readers, su.Batch, cfg.NS, cfg.IgnoreHost)
	offered := 0
	for cycle := 0; cycle < su.Cycles; cycle++ {
		id := fmt.Sprintf("st%dc%d", su.Round, cycle)
		replay := map[string]interface{}{"setup": su, "cycle": cycle, "note": "replays by seed and shard"}
		// (1) datagram N, on which the handler stalls
		stalled, release := h.arm(id + "stall")
		released := false
		unstall := func() {
			if !released {
				released = true
				close(release)
			}
		}
		if offer([]byte(id+"stall.c:1|c\n"+id+"stall.g:2|g"), ips[0]) != nil {
			r.Inconclusive("receiver-stall-offer-watchdog")
			unstall()
			return su.Mode == "udp"
		}
		offered++
		t := time.NewTimer(watchdog / 2)
		select {
		case <-stalled:
			t.Stop()
		case <-t.C:
			r.Inconclusive("receiver-stall-not-reached")
			unstall()
			return su.Mode == "udp"
		}
		// (2) while the parser is stalled: as many datagrams as there are readers, each read and then held by its reader
		k := su.Readers
		lower := make([]int64, k)
		for j := 0; j < k; j++ {
			var b strings.Builder
			lines := 1 + rng.Intn(6)
			for l := 0; l < lines; l++ {
				if l > 0 {
					b.WriteByte('\n')
				}
				switch l % 3 {
				case 0:
					fmt.Fprintf(&b, "%sd%dl%d.c:%d|c|#id:%d", id, j, l, 1+rng.Intn(9), l)
				case 1:
					fmt.Fprintf(&b, "%sd%dl%d/t:%d.5|ms|#host:h%d", id, j, l, rng.Intn(1000), j)
				default:
					fmt.Fprintf(&b, "%sd%dl%d g:%d|g", id, j, l, rng.Intn(100))
				}
			}
			lower[j] = time.Now().UnixNano()
			if offer([]byte(b.String()), ips[rng.Intn(len(ips))]) != nil {
				r.Inconclusive("receiver-stall-offer-watchdog")
				unstall()
				return su.Mode == "udp"
			}
			offered++
		}
		// (3) until the receiver has reported a count that includes them: their timestamps have been taken by then
		if !counted(offered) {
			r.Inconclusive("receiver-stall-count-not-reported")
			unstall()
			return su.Mode == "udp"
		}
		// (4) (5)
		upper := time.Now().UnixNano()
		unstall()
		// (6) their metrics arrive
		if !mon.WaitUntil(watchdog/2, func() bool { return h.seen(id+"d") >= 1 && h.seenAll(id, k) }) {
			r.Inconclusive("receiver-stall-metrics-not-dispatched")
			return su.Mode == "udp"
		}
		r.Eval(1)
		r.Event("receiver_stall_scenarios", 1)
		checked, late, early := 0, 0, 0
		var firstLate, firstEarly string
		for _, tm := range h.take() {
			for key, se := range ref.FromMap(tm.mm) {
				for j := 0; j < k; j++ {
					if !strings.Contains(se.Name, fmt.Sprintf("%sd%dl", id, j)) {
						continue
					}
					checked++
					if se.Timestamp > upper {
						late++
						if firstLate == "" {
							firstLate = fmt.Sprintf("series %q has timestamp %d, %.3f ms after the clock reading %d made once receiver.datagrams_received (%d) included its datagram", key, se.Timestamp, float64(se.Timestamp-upper)/1e6, upper, offered)
						}
					}
					if se.Timestamp < lower[j] {
						early++
						if firstEarly == "" {
							firstEarly = fmt.Sprintf("series %q has timestamp %d, %.3f ms before its datagram was offered at %d", key, se.Timestamp, float64(lower[j]-se.Timestamp)/1e6, lower[j])
						}
					}
				}
			}
		}
		r.Event("receiver_stall_timestamps_checked", checked)
		if late > 0 {
			r.Violation("receiver-timestamp-after-datagram-counted", fmt.Sprintf("%d of %d timestamps of datagrams that were read (and counted) while the parser was stalled are newer than the moment the count was reported: %s; %s", late, checked, firstLate, where), replay)
		}
		if early > 0 {
			r.Violation("receiver-timestamp-before-datagram-sent", fmt.Sprintf("%d of %d timestamps (back-pressure scenario): %s; %s", early, checked, firstEarly, where), replay)
		}
		if checked == 0 {
			r.Violation("receiver-vs-sent:missing-series", fmt.Sprintf("none of the metrics of the %d datagrams offered during the stall were dispatched; %s", k, where), replay)
		}
		r.Nontrivial(fmt.Sprintf("receiver-stall:%s:R%d:S%d:ih=%v:ns=%v", su.Mode, su.Readers, su.Batch, cfg.IgnoreHost, cfg.NS != ""))
		if r.WantSample() && su.Round%8 == 1 && cycle == 0 {
			r.Sample(map[string]interface{}{"variant": "receiver-stall", "setup": su, "held_datagrams": k, "timestamps_checked": checked, "stall_ns": upper - lower[0]})
		}
	}
	return false
}

// seenAll reports whether the first line of each of the k datagrams offered during the stall has been dispatched.
func (h *stallCapture) seenAll(id string, k int) bool {
	for j := 0; j < k; j++ {
		if h.seen(fmt.Sprintf("%sd%dl0.c", id, j)) == 0 {
			return false
		}
	}
	return true
}
