//go:build verif

// C05, receiver variant — the buffers that matter in production belong to the real DatagramReceiver: it reads
// every datagram into a pooled 64 KiB buffer, hands the parser a slice of it plus a DoneFunc that returns the
// buffer to the pool, and re-arms the slot with another pooled buffer. This variant drives the real
// statsd.NewDatagramReceiver (1-4 readers, batch sizes 1-50) on a scripted net.PacketConn — and, when the
// sandbox allows it, on a real loopback UDP socket, which is what makes batches larger than one datagram —
// into the real DatagramParser (1-4 Run goroutines on one unbuffered channel, as gostatsd wires them) and a
// capturing handler. Every line of every datagram carries a unique id (metric name, timer value, set member,
// event title), datagram lengths range from one short line to ~65000 bytes, and they are sent in bursts so
// that many batches are in flight while buffers go round the receiver's own pool. Oracle: the union of
// everything parsed is exactly what was sent — each id once, with its name / value / tags / source — and the
// parser.* and receiver.* counters are exact.
package c05

import (
	"context"
	"errors"
	"fmt"
	"math/rand"
	"net"
	"sort"
	"strconv"
	"strings"
	"sync"
	"sync/atomic"
	"time"

	"github.com/atlassian/gostatsd"
	"github.com/atlassian/gostatsd/pkg/stats"
	"github.com/atlassian/gostatsd/pkg/statsd"

	"verif/gen"
	"verif/mon"
	"verif/ref"
)

// ---------------------------------------------------------------------------------------------
// scripted socket

type feedItem struct {
	msg  []byte
	addr *net.UDPAddr
}

// scriptNet is what the readers' sockets share: one queue of datagrams, like several SO_REUSEPORT sockets on
// one port. It knows when every reader is back in ReadFrom with nothing left to read, which (the receiver
// reads again only after it has handed its previous batch to the parser channel) means that every datagram
// has reached a parser goroutine.
type scriptNet struct {
	feed    chan feedItem
	closed  chan struct{}
	once    sync.Once
	mu      sync.Mutex
	waiting int
	taken   int
}

type scriptConn struct{ n *scriptNet }

var scriptLocal = &net.UDPAddr{IP: net.IPv4(10, 7, 0, 254), Port: 8125}

func (c scriptConn) ReadFrom(b []byte) (int, net.Addr, error) {
	c.n.mu.Lock()
	c.n.waiting++
	c.n.mu.Unlock()
	select {
	case d := <-c.n.feed:
		n := copy(b, d.msg) // into the receiver's pooled buffer
		c.n.mu.Lock()
		c.n.waiting--
		c.n.taken++
		c.n.mu.Unlock()
		return n, d.addr, nil
	case <-c.n.closed:
		return 0, nil, errors.New("use of closed network connection")
	}
}
func (c scriptConn) WriteTo(b []byte, addr net.Addr) (int, error) { return len(b), nil }
func (c scriptConn) Close() error                                 { c.n.once.Do(func() { close(c.n.closed) }); return nil }
func (c scriptConn) LocalAddr() net.Addr                          { return scriptLocal }
func (c scriptConn) SetDeadline(t time.Time) error                { return nil }
func (c scriptConn) SetReadDeadline(t time.Time) error            { return nil }
func (c scriptConn) SetWriteDeadline(t time.Time) error           { return nil }

func (n *scriptNet) count() int {
	n.mu.Lock()
	defer n.mu.Unlock()
	return n.taken
}

func (n *scriptNet) idle(readers, sent int) bool {
	n.mu.Lock()
	defer n.mu.Unlock()
	return n.taken == sent && n.waiting == readers
}

// ---------------------------------------------------------------------------------------------
// workload: every line has an id of its own

type sentDatagram struct {
	msg   []byte
	ip    string
	lines int
}

type sentRound struct {
	dgs    []sentDatagram
	series *ref.Folded       // expected series, timestamps left 0
	owner  map[string]int    // series key -> index of the datagram that carries it
	events map[string]string // title -> "text|tags|source"
	c      counters
	bytes  int
}

// lineCounts: datagrams of very different lengths, so that a stale long datagram shows through a short one
// (and the other way round) when a buffer is shared.
var lineCounts = []int{1, 1, 2, 3, 5, 8, 20, 60, 200, 600, 3000}

func buildRound(rng *rand.Rand, cfg config, round, n int, ips []string, maxBytes int) *sentRound {
	s := &sentRound{series: ref.NewFolded(), events: map[string]string{}, owner: map[string]int{}}
	for k := 0; k < n; k++ {
		ip := ips[rng.Intn(len(ips))]
		want := lineCounts[rng.Intn(len(lineCounts))]
		if k%2 == 1 && rng.Intn(2) == 0 {
			want = 1 + rng.Intn(2) // a short one right after whatever came before
		}
		var msg []byte
		lines := 0
		for j := 0; j < want; j++ {
			uid := fmt.Sprintf("r%dk%dl%d", round, k, j)
			var text, evTitle, evWant string
			var kn *known
			pad := ""
			if rng.Intn(3) == 0 {
				pad = ",p:" + strings.Repeat("x", rng.Intn(50))
			}
			host := ""
			if rng.Intn(3) == 0 {
				host = ",host:h" + strconv.Itoa(rng.Intn(3))
			}
			tags := "id:" + uid + host + pad
			kind := rng.Intn(11)
			if j == 0 {
				kind = 0 // every datagram holds at least one metric
			}
			switch {
			case kind < 3:
				v := 1 + rng.Intn(1000)
				text = fmt.Sprintf("%s.c:%d|c|#%s", uid, v, tags)
				kn = &known{Name: uid + ".c", Type: gen.Counter, Value: float64(v), Rate: 1}
			case kind < 5:
				v := float64(round*1_000_000+k*4000+j) + 0.5
				text = fmt.Sprintf("%s/t:%s|ms|@0.5|#%s", uid, strconv.FormatFloat(v, 'f', -1, 64), tags)
				kn = &known{Name: uid + "-t", Type: gen.Timer, Value: v, Rate: 0.5}
			case kind < 7:
				v := float64(k*4000+j) / 4
				text = fmt.Sprintf("%s g:%s|g|#%s", uid, strconv.FormatFloat(v, 'f', -1, 64), tags)
				kn = &known{Name: uid + "_g", Type: gen.Gauge, Value: v, Rate: 1}
			case kind < 9:
				text = fmt.Sprintf("%s.s:m-%s|s|#%s", uid, uid, tags)
				kn = &known{Name: uid + ".s", Type: gen.Set, Str: "m-" + uid, Rate: 1}
			case kind < 10:
				title, body := "ev-"+uid, "text of "+uid
				text = fmt.Sprintf("_e{%d,%d}:%s|%s|d:77|#id:%s", len(title), len(body), title, body, uid)
				evTitle, evWant = title, body+"|id:"+uid+"|"+ip
			default:
				text = "bad-" + uid // no separator: rejected
			}
			if len(msg)+len(text)+2 > maxBytes {
				break
			}
			if lines > 0 {
				msg = append(msg, '\n')
			}
			msg = append(msg, text...)
			lines++
			switch {
			case kn != nil:
				kn.Tags = strings.Split(tags, ",")
				for key, se := range expectSeries(kn, cfg, ip, 0) {
					s.series.AddSeries(se)
					s.owner[key] = k
				}
				s.c.metrics++
			case evTitle != "":
				s.events[evTitle] = evWant
				s.c.events++
			default:
				s.c.bad++
			}
		}
		if rng.Intn(2) == 0 && len(msg)+1 <= maxBytes {
			msg = append(msg, '\n')
		}
		s.dgs = append(s.dgs, sentDatagram{msg: msg, ip: ip, lines: lines})
		s.bytes += len(msg)
	}
	return s
}

// timedCapture is the handler of this variant: it reads the clock the moment a map arrives, which is the upper
// bound for every timestamp inside it.
type timedMap struct {
	mm *gostatsd.MetricMap
	at int64
}

type timedCapture struct {
	mu     sync.Mutex
	maps   []timedMap
	events []*gostatsd.Event
}

func (h *timedCapture) EstimatedTags() int { return 0 }
func (h *timedCapture) WaitForEvents()     {}
func (h *timedCapture) DispatchMetricMap(ctx context.Context, mm *gostatsd.MetricMap) {
	at := time.Now().UnixNano()
	h.mu.Lock()
	h.maps = append(h.maps, timedMap{mm, at})
	h.mu.Unlock()
}
func (h *timedCapture) DispatchEvent(ctx context.Context, e *gostatsd.Event) {
	h.mu.Lock()
	h.events = append(h.events, e)
	h.mu.Unlock()
}
func (h *timedCapture) take() ([]timedMap, []*gostatsd.Event) {
	h.mu.Lock()
	defer h.mu.Unlock()
	m, e := h.maps, h.events
	h.maps, h.events = nil, nil
	return m, e
}

// idleGap is the real time during which nothing is offered to readers that are all parked in a read: a receive
// time taken when the reader started waiting is then that much older than the datagram.
const idleGap = 3 * time.Millisecond

// ---------------------------------------------------------------------------------------------
// one round

type recvSetup struct {
	Mode    string `json:"mode"` // scripted | udp
	Readers int    `json:"readers"`
	Batch   int    `json:"receive_batch_size"`
	Parsers int    `json:"parser_goroutines"`
	ChanCap int    `json:"channel_capacity"`
	Config  config `json:"config"`
	N       int    `json:"datagrams"`
	Round   int    `json:"round"`
}

func readSpy(ctx context.Context, s *spyStatser) bool {
	s0 := s.rounds()
	return mon.WaitUntil(watchdog, func() bool {
		s.NotifyFlush(ctx, 0)
		return s.rounds() >= s0+2
	})
}

func (s *spyStatser) get(name string) uint64 {
	s.mu.Lock()
	defer s.mu.Unlock()
	return uint64(s.vals[name])
}

// udpAvailable reports whether loopback UDP works here and which source addresses can be bound.
func udpSources() []string {
	var out []string
	for _, ip := range []string{"127.0.0.1", "127.0.0.2", "127.0.0.3"} {
		c, err := net.ListenUDP("udp4", &net.UDPAddr{IP: net.ParseIP(ip)})
		if err == nil {
			_ = c.Close()
			out = append(out, ip)
		}
	}
	return out
}

// receiverRound reports udpBad when loopback UDP is unusable or lossy here, and abort when goroutines of the round
// are stuck (the witness is recorded).
func receiverRound(r *mon.Run, rng *rand.Rand, su recvSetup, udpIPs []string) (udpBad, abort bool) {
	cfg := su.Config
	ips := []string{"10.7.0.1", "10.7.0.2", "10.7.0.3", "fd00::7"}
	maxBytes := 65000
	if su.Mode == "udp" {
		ips = udpIPs
		maxBytes = 60000
	}
	sent := buildRound(rng, cfg, su.Round, su.N, ips, maxBytes)
	replay := map[string]interface{}{"setup": su, "note": "replays by seed and shard", "first_datagram": strconv.Quote(string(sent.dgs[0].msg[:min(len(sent.dgs[0].msg), 300)]))}
	r.Case("receiver %+v bytes=%d", su, sent.bytes)

	base, cancel := context.WithCancel(context.Background())
	defer cancel()
	pSpy, rSpy := &spyStatser{vals: map[string]float64{}}, &spyStatser{vals: map[string]float64{}}
	pCtx, rCtx := stats.NewContext(base, pSpy), stats.NewContext(base, rSpy)
	h := &timedCapture{}
	datagrams := make(chan []*statsd.Datagram, su.ChanCap) // gostatsd: unbuffered
	dp := statsd.NewDatagramParser(datagrams, cfg.NS, cfg.IgnoreHost, cfg.EstTags, h, 0, false, quietLogger())
	for i := 0; i < su.Parsers; i++ {
		go dp.Run(pCtx)
	}
	go dp.RunMetricsContext(pCtx)

	var sn *scriptNet
	var server *net.UDPConn
	var sf statsd.SocketFactory
	if su.Mode == "udp" {
		var err error
		server, err = net.ListenUDP("udp4", &net.UDPAddr{IP: net.ParseIP("127.0.0.1")})
		if err != nil {
			r.Event("receiver_udp_unavailable", 1)
			return true, false
		}
		_ = server.SetReadBuffer(8 << 20)
		sf = func() (net.PacketConn, error) { return server, nil } // the readers share the socket
	} else {
		sn = &scriptNet{feed: make(chan feedItem, 128), closed: make(chan struct{})}
		sf = func() (net.PacketConn, error) { return scriptConn{sn}, nil }
	}
	recv := statsd.NewDatagramReceiver(datagrams, sf, su.Readers, su.Batch)
	go recv.Run(rCtx)
	go recv.RunMetricsContext(rCtx)

	// lower[k]: the clock read immediately before datagram k is made available to the socket; the receiver stamps a
	// datagram after its read has returned, so no timestamp of datagram k may be older.
	lower := make([]int64, len(sent.dgs))
	gaps := 0
	afterGap := make([]bool, len(sent.dgs))
	lost, totalsReached := false, true
	if su.Mode == "udp" {
		// Loopback UDP drops what does not fit the socket buffer, and the kernel charges far more than the payload per
		// datagram: keep a small window in flight, measured with the receiver's own datagrams_received counter.
		clients := map[string]*net.UDPConn{}
		for _, ip := range udpIPs {
			c, err := net.DialUDP("udp4", &net.UDPAddr{IP: net.ParseIP(ip)}, server.LocalAddr().(*net.UDPAddr))
			if err != nil {
				r.Event("receiver_udp_unavailable", 1)
				return true, false
			}
			defer c.Close()
			clients[ip] = c
		}
		// sizes of the datagrams written and not yet counted by the receiver, oldest first
		var sizes []int
		inFlightBytes, acked := 0, uint64(0)
		for i, d := range sent.dgs {
			if rng.Intn(10) == 0 && !lost {
				// quiet period: everything written so far has been read (the readers are back in, or on their way to, their
				// next read), then nothing for a while
				if mon.WaitUntil(watchdog/4, func() bool {
					return readSpy(rCtx, rSpy) && rSpy.get("receiver.datagrams_received") >= uint64(i)
				}) {
					acked, sizes, inFlightBytes = uint64(i), nil, 0
					time.Sleep(idleGap)
					afterGap[i] = true
					gaps++
				} else {
					lost = true
				}
			}
			for len(sizes) > 0 && (len(sizes) >= 40 || inFlightBytes+len(d.msg) > 120_000) && !lost {
				progressed := mon.WaitUntil(watchdog/4, func() bool {
					return readSpy(rCtx, rSpy) && rSpy.get("receiver.datagrams_received") > acked
				})
				if !progressed {
					lost = true // written, nothing else pending, never read: the kernel dropped it
					break
				}
				for got := rSpy.get("receiver.datagrams_received"); acked < got && len(sizes) > 0; acked++ {
					inFlightBytes -= sizes[0]
					sizes = sizes[1:]
				}
			}
			if lost {
				break
			}
			lower[i] = time.Now().UnixNano()
			if _, err := clients[d.ip].Write(d.msg); err != nil {
				r.Inconclusive("receiver-udp-write-failed")
				return true, false
			}
			inFlightBytes += len(d.msg)
			sizes = append(sizes, len(d.msg))
		}
		if !lost && !mon.WaitUntil(watchdog/4, func() bool {
			return readSpy(rCtx, rSpy) && rSpy.get("receiver.datagrams_received") >= uint64(len(sent.dgs))
		}) {
			lost = true
		}
		// all read; every reader hands over at most one more batch. Counters only grow, so wait for the expected totals.
		if !lost {
			totalsReached = mon.WaitUntil(watchdog, func() bool {
				if !readSpy(pCtx, pSpy) {
					return true
				}
				return pSpy.get("parser.metrics_received")+pSpy.get("parser.events_received")+pSpy.get("parser.bad_lines_seen") >= sent.c.metrics+sent.c.events+sent.c.bad
			})
		}
	} else {
		for i, d := range sent.dgs {
			if rng.Intn(10) == 0 || i == 0 {
				// quiet period: every reader is parked in ReadFrom with nothing queued, for a few milliseconds of real time
				if mon.WaitUntil(watchdog, func() bool { return sn.idle(su.Readers, i) }) {
					time.Sleep(idleGap)
					afterGap[i] = true
					gaps++
				}
			}
			t := time.NewTimer(watchdog)
			lower[i] = time.Now().UnixNano()
			select {
			case sn.feed <- feedItem{msg: d.msg, addr: &net.UDPAddr{IP: net.ParseIP(d.ip), Port: 40000}}:
				t.Stop()
			case <-t.C:
				r.Violation("receiver-wedged", fmt.Sprintf("the receiver stopped reading after %d datagrams; setup %+v", sn.count(), su), replay)
				return false, true
			}
		}
		if !mon.WaitUntil(watchdog, func() bool { return sn.idle(su.Readers, len(sent.dgs)) }) {
			r.Violation("receiver-wedged", fmt.Sprintf("not every reader came back for more after %d datagrams (a batch was never taken by a parser); setup %+v", len(sent.dgs), su), replay)
			return false, true
		}
	}
	// barrier: a fence datagram whose DoneFunc blocks can be held by one parser goroutine only, so when all of them
	// have arrived every goroutine has finished (counters included) whatever it took before.
	var arrived atomic.Int64
	release := make(chan struct{})
	for i := 0; i < su.Parsers; i++ {
		fence := []*statsd.Datagram{{DoneFunc: func() { arrived.Add(1); <-release }}}
		t := time.NewTimer(watchdog)
		select {
		case datagrams <- fence:
			t.Stop()
		case <-t.C:
			close(release)
			r.Violation("receiver-wedged", fmt.Sprintf("parser goroutines stopped taking batches; setup %+v", su), replay)
			return false, true
		}
	}
	okBarrier := mon.WaitUntil(watchdog, func() bool { return arrived.Load() == int64(su.Parsers) })
	close(release)
	if !okBarrier {
		r.Inconclusive("receiver-barrier-watchdog")
		return false, true
	}
	if !readSpy(pCtx, pSpy) || !readSpy(rCtx, rSpy) {
		r.Inconclusive("receiver-counters-not-reported")
		return false, true
	}
	maps, events := h.take()
	cancel()

	r.Eval(len(sent.dgs))
	r.Event("receiver_datagrams_"+su.Mode, len(sent.dgs))
	r.Event("receiver_lines", int(sent.c.metrics+sent.c.events+sent.c.bad))
	r.Event("receiver_batches_read", int(rSpy.get("receiver.batches_read")))
	r.Event("receiver_maps", len(maps))
	where := fmt.Sprintf("real receiver (%s socket, %d readers, batch size %d) -> %d parser goroutines, namespace %q ignore-host %v, %d datagrams of 1..%d bytes", su.Mode, su.Readers, su.Batch, su.Parsers, cfg.NS, cfg.IgnoreHost, len(sent.dgs), maxBytes)

	gotDg := rSpy.get("receiver.datagrams_received")
	if gotDg < uint64(len(sent.dgs)) && su.Mode == "udp" {
		lost = true
	}
	if lost {
		r.Inconclusive("receiver-udp-datagrams-dropped-by-kernel")
	} else if gotDg != uint64(len(sent.dgs)) {
		r.Violation("receiver-datagram-count", fmt.Sprintf("receiver.datagrams_received = %d, %d were sent; %s", gotDg, len(sent.dgs), where), replay)
	}
	got := ref.NewFolded()
	checked, early, earlyAfterGap, late := 0, 0, 0, 0
	var firstEarly, firstLate string
	var worst int64
	for _, tm := range maps {
		flat := ref.FromMap(tm.mm)
		got.AddMap(flat)
		for key, se := range flat {
			k, ok := sent.owner[key]
			if !ok || lower[k] == 0 {
				continue // not one of ours (reported below) or never sent
			}
			checked++
			if se.Timestamp < lower[k] {
				early++
				if afterGap[k] {
					earlyAfterGap++
				}
				if d := lower[k] - se.Timestamp; d > worst {
					worst = d
					firstEarly = fmt.Sprintf("series %q of datagram %d (after an idle gap: %v) has timestamp %d, but the datagram was only made available to the socket at %d, %.3f ms later", key, k, afterGap[k], se.Timestamp, lower[k], float64(d)/1e6)
				}
			}
			if se.Timestamp > tm.at {
				late++
				if firstLate == "" {
					firstLate = fmt.Sprintf("series %q of datagram %d has timestamp %d, but its map reached the handler at %d", key, k, se.Timestamp, tm.at)
				}
			}
		}
	}
	r.Event("receiver_timestamps_checked", checked)
	r.Event("receiver_datagrams_after_idle_gap", gaps)
	if early > 0 {
		r.Event("receiver_timestamps_early", early)
		r.Violation("receiver-timestamp-before-datagram-sent", fmt.Sprintf("%d of %d timestamps are older than the moment their datagram was sent (%d of them in datagrams that followed an idle gap of %v; %d such datagrams in this round); worst: %s; %s", early, checked, earlyAfterGap, idleGap, gaps, firstEarly, where), replay)
	}
	if late > 0 {
		r.Violation("receiver-timestamp-after-dispatch", fmt.Sprintf("%d of %d timestamps are newer than the moment their map reached the handler; first: %s; %s", late, checked, firstLate, where), replay)
	}
	diff := ref.Diff(got.Series, sent.series.Series, ref.DiffOpts{IgnoreTimestamp: true})
	if lost {
		kept := diff[:0]
		for _, d := range diff {
			if !strings.HasPrefix(d, "missing") {
				kept = append(kept, d)
			}
		}
		diff = kept
	}
	if len(diff) > 0 {
		n := len(diff)
		if n > 6 {
			diff = diff[:6]
		}
		r.Violation("receiver-vs-sent:"+firstField(diff[0]), fmt.Sprintf("what was parsed is not what was sent (%d differences): %s; %s", n, strings.Join(diff, "; "), where), replay)
	}
	gotEv := map[string]int{}
	var evDiff []string
	for _, e := range events {
		gotEv[e.Title]++
		want, ok := sent.events[e.Title]
		have := e.Text + "|" + strings.Join(e.Tags, ",") + "|" + string(e.Source)
		switch {
		case !ok:
			evDiff = append(evDiff, fmt.Sprintf("unexpected event %q", e.Title))
		case want != have || e.DateHappened != 77:
			evDiff = append(evDiff, fmt.Sprintf("event %q is %q date %d, sent %q date 77", e.Title, have, e.DateHappened, want))
		}
	}
	for title := range sent.events {
		if gotEv[title] > 1 {
			evDiff = append(evDiff, fmt.Sprintf("event %q dispatched %d times", title, gotEv[title]))
		}
	}
	if !lost && uint64(len(events)) != sent.c.events {
		evDiff = append(evDiff, fmt.Sprintf("%d events dispatched, %d sent", len(events), sent.c.events))
	}
	if len(evDiff) > 0 {
		sort.Strings(evDiff)
		n := len(evDiff)
		if n > 6 {
			evDiff = evDiff[:6]
		}
		r.Violation("receiver-events", fmt.Sprintf("%d differences: %s; %s", n, strings.Join(evDiff, "; "), where), replay)
	}
	pc := counters{pSpy.get("parser.metrics_received"), pSpy.get("parser.events_received"), pSpy.get("parser.bad_lines_seen")}
	if !lost && pc != sent.c {
		r.Violation("receiver-counters", fmt.Sprintf("parser.metrics_received/events_received/bad_lines_seen = %d/%d/%d, sent %d/%d/%d; %s", pc.metrics, pc.events, pc.bad, sent.c.metrics, sent.c.events, sent.c.bad, where), replay)
	}
	recycled := int(gotDg) > su.Readers*su.Batch*2
	if recycled && !lost {
		r.Nontrivial(fmt.Sprintf("receiver:%s:R%d:S%d:P%d:cap%d:ih=%v:ns=%v", su.Mode, su.Readers, su.Batch, su.Parsers, su.ChanCap, cfg.IgnoreHost, cfg.NS != ""))
	}
	if r.WantSample() && su.Round%4 == 0 {
		r.Sample(map[string]interface{}{"variant": "receiver", "setup": su, "bytes": sent.bytes, "lines": sent.c.metrics + sent.c.events + sent.c.bad, "batches_read": rSpy.get("receiver.batches_read"), "maps": len(maps), "first_datagram": replay["first_datagram"]})
	}
	// a UDP round that never reached its totals has cost a whole watchdog: whatever the oracles said above, do not
	// spend that again in this run
	return lost || !totalsReached, false
}

func receiverVariant(r *mon.Run) {
	rounds := r.N(24, 240)
	n := r.Pick(200, 600)
	shard, shards := r.Shard()
	udpIPs := udpSources()
	udpOK := len(udpIPs) > 0
	if !udpOK {
		r.Event("receiver_udp_unavailable", 1)
	}
	rng := r.Rand("receiver")
	stallRng := r.Rand("receiver-stall")
	for i := 0; i < rounds; i++ {
		round := i*shards + shard
		su := recvSetup{Mode: "scripted", Readers: 1 + rng.Intn(4), Batch: []int{1, 2, 5, 16, 50}[rng.Intn(5)], Parsers: 1 + rng.Intn(4),
			ChanCap: []int{0, 0, 0, 4}[rng.Intn(4)], Config: configs[rng.Intn(len(configs))], N: n, Round: round}
		if round%3 == 2 && udpOK {
			su.Mode = "udp"
		}
		udpBad, abort := receiverRound(r, rng, su, udpIPs)
		if udpBad {
			udpOK = false // lossy or unavailable here: do not spend the watchdog on it again
		}
		if abort {
			return // goroutines of that round are stuck; the witness is recorded
		}
		// back-pressure scenarios (stall_test.go): a single reader with batch size 1, or several readers
		st := stallSetup{Mode: "scripted", Readers: 1, Batch: 1, Config: configs[stallRng.Intn(len(configs))], Round: round, Cycles: 4}
		if i%2 == 1 {
			st.Readers, st.Batch = 2+stallRng.Intn(3), []int{1, 4}[stallRng.Intn(2)]
		}
		if round%3 == 1 && udpOK {
			st.Mode = "udp"
		}
		if stallScenario(r, stallRng, st, udpIPs) {
			udpOK = false
		}
	}
}
