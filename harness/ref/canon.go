// Package ref holds the reference models: independent re-statements of what the properties
// promise, against which the real code's observable output is compared.
package ref

import (
	"fmt"
	"math"
	"sort"
	"strings"

	"github.com/atlassian/gostatsd"
)

// Series is the harness' own flat view of one series of a MetricMap.
type Series struct {
	Type         int       `json:"type"` // 1 counter 2 timer 3 gauge 4 set
	Name         string    `json:"name"`
	TagsKey      string    `json:"tags_key"`
	Tags         []string  `json:"tags"` // sorted copy
	Source       string    `json:"source"`
	Counter      int64     `json:"counter,omitempty"`
	Gauge        float64   `json:"gauge,omitempty"`
	Values       []float64 `json:"values,omitempty"` // sorted
	SampledCount float64   `json:"sampled_count,omitempty"`
	Members      []string  `json:"members,omitempty"` // sorted
	Timestamp    int64     `json:"timestamp"`
}

// Key is the identity of a series inside a map.
func Key(typ int, name, tagsKey string) string { return fmt.Sprintf("%d|%s|%s", typ, name, tagsKey) }

func sortedCopy(t gostatsd.Tags) []string {
	out := append([]string(nil), t...)
	sort.Strings(out)
	return out
}

// SortFloats sorts with NaNs first and -0 before +0, so that equal multisets give equal slices.
func SortFloats(v []float64) {
	sort.Slice(v, func(i, j int) bool {
		a, b := v[i], v[j]
		if math.IsNaN(a) || math.IsNaN(b) {
			return math.IsNaN(a) && !math.IsNaN(b)
		}
		if a == b {
			return math.Signbit(a) && !math.Signbit(b)
		}
		return a < b
	})
}

// FromMap flattens a MetricMap. It copies everything, so the result stays valid when the map is reused.
func FromMap(mm *gostatsd.MetricMap) map[string]*Series {
	out := map[string]*Series{}
	if mm == nil {
		return out
	}
	mm.Counters.Each(func(name, tk string, c gostatsd.Counter) {
		out[Key(1, name, tk)] = &Series{Type: 1, Name: name, TagsKey: tk, Tags: sortedCopy(c.Tags), Source: string(c.Source), Counter: c.Value, Timestamp: int64(c.Timestamp)}
	})
	mm.Timers.Each(func(name, tk string, t gostatsd.Timer) {
		vals := append([]float64(nil), t.Values...)
		SortFloats(vals)
		out[Key(2, name, tk)] = &Series{Type: 2, Name: name, TagsKey: tk, Tags: sortedCopy(t.Tags), Source: string(t.Source), Values: vals, SampledCount: t.SampledCount, Timestamp: int64(t.Timestamp)}
	})
	mm.Gauges.Each(func(name, tk string, g gostatsd.Gauge) {
		out[Key(3, name, tk)] = &Series{Type: 3, Name: name, TagsKey: tk, Tags: sortedCopy(g.Tags), Source: string(g.Source), Gauge: g.Value, Timestamp: int64(g.Timestamp)}
	})
	mm.Sets.Each(func(name, tk string, s gostatsd.Set) {
		mem := make([]string, 0, len(s.Values))
		for m := range s.Values {
			mem = append(mem, m)
		}
		sort.Strings(mem)
		out[Key(4, name, tk)] = &Series{Type: 4, Name: name, TagsKey: tk, Tags: sortedCopy(s.Tags), Source: string(s.Source), Members: mem, Timestamp: int64(s.Timestamp)}
	})
	return out
}

// SameFloat is bit-for-bit equality except that all NaNs are equal.
func SameFloat(a, b float64) bool {
	if math.IsNaN(a) || math.IsNaN(b) {
		return math.IsNaN(a) && math.IsNaN(b)
	}
	return a == b && math.Signbit(a) == math.Signbit(b)
}

// CloseFloat compares with a relative tolerance (for sums of arbitrary floats).
func CloseFloat(a, b, rel float64) bool {
	if SameFloat(a, b) || a == b {
		return true
	}
	if math.IsInf(a, 0) || math.IsInf(b, 0) || math.IsNaN(a) || math.IsNaN(b) {
		return false
	}
	d := math.Abs(a - b)
	return d <= rel*math.Max(math.Abs(a), math.Abs(b)) || d < 1e-300
}

// DiffOpts selects what Diff compares.
type DiffOpts struct {
	IgnoreTimestamp bool
	IgnoreGauge     bool    // gauges are compared by the caller (set of allowed values)
	IgnoreTagsKey   bool    // compare identity by (type, name, sorted tags, source) instead of the map key
	SampledRel      float64 // relative tolerance for sampled counts (0 = exact)
}

func identity(s *Series, o DiffOpts) string {
	if o.IgnoreTagsKey {
		return fmt.Sprintf("%d|%s|%s|%s", s.Type, s.Name, strings.Join(s.Tags, ","), s.Source)
	}
	return Key(s.Type, s.Name, s.TagsKey)
}

// Diff lists the differences between two flattened maps (empty = equal).
func Diff(got, want map[string]*Series, o DiffOpts) []string {
	var out []string
	g := map[string]*Series{}
	for _, s := range got {
		id := identity(s, o)
		if _, dup := g[id]; dup {
			out = append(out, "duplicate series in got: "+id)
		}
		g[id] = s
	}
	w := map[string]*Series{}
	for _, s := range want {
		w[identity(s, o)] = s
	}
	ids := make([]string, 0, len(w))
	for id := range w {
		ids = append(ids, id)
	}
	sort.Strings(ids)
	for _, id := range ids {
		ws := w[id]
		gs, ok := g[id]
		if !ok {
			out = append(out, fmt.Sprintf("missing series %q", id))
			continue
		}
		if d := diffSeries(gs, ws, o); d != "" {
			out = append(out, fmt.Sprintf("series %q: %s", id, d))
		}
	}
	extra := []string{}
	for id := range g {
		if _, ok := w[id]; !ok {
			extra = append(extra, id)
		}
	}
	sort.Strings(extra)
	for _, id := range extra {
		out = append(out, fmt.Sprintf("unexpected series %q", id))
	}
	return out
}

func diffSeries(g, w *Series, o DiffOpts) string {
	var d []string
	if strings.Join(g.Tags, ",") != strings.Join(w.Tags, ",") {
		d = append(d, fmt.Sprintf("tags %q want %q", g.Tags, w.Tags))
	}
	if g.Source != w.Source {
		d = append(d, fmt.Sprintf("source %q want %q", g.Source, w.Source))
	}
	if !o.IgnoreTimestamp && g.Timestamp != w.Timestamp {
		d = append(d, fmt.Sprintf("timestamp %d want %d", g.Timestamp, w.Timestamp))
	}
	switch w.Type {
	case 1:
		if g.Counter != w.Counter {
			d = append(d, fmt.Sprintf("counter %d want %d", g.Counter, w.Counter))
		}
	case 2:
		if len(g.Values) != len(w.Values) {
			d = append(d, fmt.Sprintf("timer has %d values want %d", len(g.Values), len(w.Values)))
		} else {
			for i := range g.Values {
				if !SameFloat(g.Values[i], w.Values[i]) {
					d = append(d, fmt.Sprintf("timer value[%d] %v want %v", i, g.Values[i], w.Values[i]))
					break
				}
			}
		}
		if o.SampledRel > 0 {
			if !CloseFloat(g.SampledCount, w.SampledCount, o.SampledRel) {
				d = append(d, fmt.Sprintf("sampled count %v want %v", g.SampledCount, w.SampledCount))
			}
		} else if !SameFloat(g.SampledCount, w.SampledCount) {
			d = append(d, fmt.Sprintf("sampled count %v want %v", g.SampledCount, w.SampledCount))
		}
	case 3:
		if !o.IgnoreGauge && !SameFloat(g.Gauge, w.Gauge) {
			d = append(d, fmt.Sprintf("gauge %v want %v", g.Gauge, w.Gauge))
		}
	case 4:
		if strings.Join(g.Members, "\x00") != strings.Join(w.Members, "\x00") {
			d = append(d, fmt.Sprintf("set members %q want %q", g.Members, w.Members))
		}
	}
	return strings.Join(d, "; ")
}

// Datapoint is one received sample, the unit the reference fold works on.
type Datapoint struct {
	Type      int      `json:"type"`
	Name      string   `json:"name"`
	Tags      []string `json:"tags"`
	Source    string   `json:"source"`
	Value     float64  `json:"value"`
	Str       string   `json:"str,omitempty"`
	Rate      float64  `json:"rate"`
	Timestamp int64    `json:"timestamp"`
}

// TagsKey reproduces the documented series key: sorted tags joined by ',' plus ",s:<source>".
func TagsKey(tags []string, source string) string {
	t := append([]string(nil), tags...)
	sort.Strings(t)
	k := strings.Join(t, ",")
	if source == "" {
		return k
	}
	return k + ",s:" + source
}

// Metric converts the datapoint into a fresh gostatsd.Metric.
func (d Datapoint) Metric() *gostatsd.Metric {
	return &gostatsd.Metric{Name: d.Name, Type: gostatsd.MetricType(d.Type), Value: d.Value, StringValue: d.Str, Rate: d.Rate,
		Tags: append(gostatsd.Tags(nil), d.Tags...), Source: gostatsd.Source(d.Source), Timestamp: gostatsd.Nanotime(d.Timestamp)}
}

// Folded is the reference aggregate of a collection of datapoints or maps.
type Folded struct {
	Series map[string]*Series
	// GaugeAllowed lists, per gauge key, the values carried by a datapoint with the newest timestamp.
	GaugeAllowed map[string][]float64
}

// NewFolded returns an empty reference aggregate.
func NewFolded() *Folded {
	return &Folded{Series: map[string]*Series{}, GaugeAllowed: map[string][]float64{}}
}

// AddDatapoint folds one datapoint: counters add trunc(value/rate), timers append the value and add
// 1/rate, sets unite, gauges remember the values of newest timestamp, timestamps take the maximum.
func (f *Folded) AddDatapoint(d Datapoint) {
	tk := TagsKey(d.Tags, d.Source)
	k := Key(d.Type, d.Name, tk)
	s, ok := f.Series[k]
	if !ok {
		s = &Series{Type: d.Type, Name: d.Name, TagsKey: tk, Tags: sortedCopy(d.Tags), Source: d.Source, Timestamp: d.Timestamp}
		f.Series[k] = s
	}
	switch d.Type {
	case 1:
		s.Counter += int64(d.Value / d.Rate)
	case 2:
		s.Values = append(s.Values, d.Value)
		SortFloats(s.Values)
		s.SampledCount += 1 / d.Rate
	case 3:
		f.gauge(k, s, d.Value, d.Timestamp, ok)
	case 4:
		s.Members = uniqAdd(s.Members, d.Str)
	}
	if d.Timestamp > s.Timestamp {
		s.Timestamp = d.Timestamp
	}
}

func (f *Folded) gauge(k string, s *Series, v float64, ts int64, existed bool) {
	switch {
	case !existed || ts > s.Timestamp:
		f.GaugeAllowed[k] = []float64{v}
		s.Gauge = v
	case ts == s.Timestamp:
		f.GaugeAllowed[k] = append(f.GaugeAllowed[k], v)
		s.Gauge = v
	}
}

func uniqAdd(sorted []string, v string) []string {
	i := sort.SearchStrings(sorted, v)
	if i < len(sorted) && sorted[i] == v {
		return sorted
	}
	sorted = append(sorted, "")
	copy(sorted[i+1:], sorted[i:])
	sorted[i] = v
	return sorted
}

// AddSeries folds an already aggregated series (one entry of a map being merged).
func (f *Folded) AddSeries(in *Series) {
	k := Key(in.Type, in.Name, in.TagsKey)
	s, ok := f.Series[k]
	if !ok {
		s = &Series{Type: in.Type, Name: in.Name, TagsKey: in.TagsKey, Tags: append([]string(nil), in.Tags...), Source: in.Source, Timestamp: in.Timestamp}
		f.Series[k] = s
	}
	switch in.Type {
	case 1:
		s.Counter += in.Counter
	case 2:
		s.Values = append(s.Values, in.Values...)
		SortFloats(s.Values)
		s.SampledCount += in.SampledCount
	case 3:
		f.gauge(k, s, in.Gauge, in.Timestamp, ok)
	case 4:
		for _, m := range in.Members {
			s.Members = uniqAdd(s.Members, m)
		}
	}
	if in.Timestamp > s.Timestamp {
		s.Timestamp = in.Timestamp
	}
}

// AddMap folds every series of a flattened map.
func (f *Folded) AddMap(m map[string]*Series) {
	keys := make([]string, 0, len(m))
	for k := range m {
		keys = append(keys, k)
	}
	sort.Strings(keys)
	for _, k := range keys {
		f.AddSeries(m[k])
	}
}

// CheckGauges verifies that every gauge of got has one of the allowed values.
func (f *Folded) CheckGauges(got map[string]*Series) []string {
	var out []string
	for k, allowed := range f.GaugeAllowed {
		g, ok := got[k]
		if !ok {
			continue // reported by Diff
		}
		found := false
		for _, a := range allowed {
			if SameFloat(a, g.Gauge) {
				found = true
			}
		}
		if !found {
			out = append(out, fmt.Sprintf("gauge %q = %v, but the datapoints with the newest timestamp carry %v", k, g.Gauge, allowed))
		}
	}
	sort.Strings(out)
	return out
}
