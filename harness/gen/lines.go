// Package gen holds the generators shared by the checks. lines.go is an independent generator of the
// documented statsd / dogstatsd line grammar: every generated line carries the fields the parser is
// expected to extract, computed from the generating derivation (never by re-lexing).
package gen

import (
	"fmt"
	"math"
	"math/rand"
	"strconv"
	"strings"
)

// Metric types, numerically equal to gostatsd.MetricType.
const (
	Counter = 1
	Timer   = 2
	Gauge   = 3
	Set     = 4
)

// MetricLine is a derivation of name:value|type[|@rate][|#tags][|other].
type MetricLine struct {
	Line     string   `json:"line"`
	Name     string   `json:"name"` // expected name after normalisation, without namespace
	Type     int      `json:"type"`
	Value    float64  `json:"value"`
	StrValue string   `json:"str_value"`
	Rate     float64  `json:"rate"`
	Tags     []string `json:"tags"`
	Shape    string   `json:"shape"` // derivation shape, for coverage accounting
}

// EventLine is a derivation of _e{n,m}:title|text[|attr...].
type EventLine struct {
	Line           string   `json:"line"`
	Title          string   `json:"title"`
	Text           string   `json:"text"` // expected text (escaped newlines restored)
	DateHappened   int64    `json:"date_happened"`
	Hostname       string   `json:"hostname"`
	AggregationKey string   `json:"aggregation_key"`
	Priority       int      `json:"priority"` // 0 normal, 1 low
	SourceTypeName string   `json:"source_type_name"`
	AlertType      int      `json:"alert_type"` // 0 info 1 warning 2 error 3 success
	Tags           []string `json:"tags"`
	Shape          string   `json:"shape"`
}

// LineOpts tunes the generator.
type LineOpts struct {
	// Plain restricts names to [A-Za-z0-9_.-] and tags / set members to [A-Za-z0-9_.:/-].
	Plain bool
	// FiniteOnly excludes ±Inf values.
	FiniteOnly bool
	// DyadicRates restricts sample rates to 1, 1/2, 1/4, 1/8 (exact arithmetic).
	DyadicRates bool
	// SmallInts restricts numeric values to small integers (exact sums).
	SmallInts bool
	// NoUnknownFields omits the ignored |x... sections.
	NoUnknownFields bool
	// UTF8Only keeps tags, set members and event fields valid UTF-8 (printable ASCII plus a few runes).
	UTF8Only bool
	// Types restricts the metric types generated (nil = all).
	Types []int
}

const nameGood = "abcdefghijklmnopqrstuvwxyzABCDEFGHIJKLMNOPQRSTUVWXYZ0123456789._-"
const plainTagChars = "abcdefghijklmnopqrstuvwxyzABCDEFGHIJKLMNOPQRSTUVWXYZ0123456789_.:/-"

// junk characters removed from names by the documented normalisation (anything outside the class,
// other than '/', blank, ':' and the line terminators).
var nameJunk = []string{"!", "@", "#", "$", "%", "^", "&", "*", "(", ")", "=", "+", "[", "]", "{", "}", "|", ";", "'", "\"", "<", ">", ",", "?", "~", "`", "\\", "é", "\x7f", "\x01", "\xff"}

func pick(r *rand.Rand, s string) byte { return s[r.Intn(len(s))] }

// Name returns a raw name and its expected normalised form. The first raw byte is never '_' (which
// selects the dogstatsd special-line syntax) and the normalised form is never empty.
func Name(r *rand.Rand, plain bool) (raw, want string) {
	n := 1 + r.Intn(12)
	if r.Intn(20) == 0 {
		n = 40 + r.Intn(200)
	}
	var rb, wb strings.Builder
	for i := 0; i < n; i++ {
		k := r.Intn(100)
		switch {
		case plain || k < 80:
			c := pick(r, nameGood)
			if i == 0 && c == '_' {
				c = 'u'
			}
			rb.WriteByte(c)
			wb.WriteByte(c)
		case k < 86:
			rb.WriteByte('/')
			wb.WriteByte('-')
		case k < 91:
			rb.WriteByte(' ')
			wb.WriteByte('_')
		case k < 93:
			rb.WriteByte('\t')
			wb.WriteByte('_')
		default:
			rb.WriteString(nameJunk[r.Intn(len(nameJunk))])
		}
	}
	if wb.Len() == 0 {
		rb.WriteByte('z')
		wb.WriteByte('z')
	}
	return rb.String(), wb.String()
}

type numForm struct {
	s string
	v float64
}

var exoticNums = []numForm{
	{"0", 0}, {"-0", math.Copysign(0, -1)}, {"+1", 1}, {"1e3", 1000}, {"1E3", 1000}, {"1e-3", 0.001}, {".5", 0.5}, {"5.", 5},
	{"0x1p-2", 0.25}, {"0X1P+4", 16}, {"0x1.8p1", 3}, {"1e308", 1e308}, {"-1e308", -1e308}, {"4.9e-324", 4.9e-324},
	{"9007199254740993", 9007199254740992}, {"0.1", 0.1}, {"00012", 12}, {"-00.50", -0.5}, {"1e400", math.Inf(1)}, {"-1e400", math.Inf(-1)},
	// plain digit strings at and beyond the 64-bit integer boundaries (a value is a decimal float, not an integer)
	{"18446744073709551615", 18446744073709551615.0}, {"18446744073709551616", 18446744073709551616.0}, {"99999999999999999999", 1e20},
	{"-18446744073709551616", -18446744073709551616.0}, {"9223372036854775808", 9223372036854775808.0}, {"340282366920938463463374607431768211456", 340282366920938463463374607431768211456.0},
	{"00000000000000000000000042", 42}, {"4294967296", 4294967296},
	{"inf", math.Inf(1)}, {"-Inf", math.Inf(-1)}, {"+INF", math.Inf(1)}, {"Infinity", math.Inf(1)}, {"-infinity", math.Inf(-1)}, {"0x_1p0", 1},
}

// Number returns a textual number and the float64 it denotes.
func Number(r *rand.Rand, o LineOpts) (string, float64) {
	if o.SmallInts {
		v := r.Intn(2001) - 1000
		return strconv.Itoa(v), float64(v)
	}
	switch k := r.Intn(10); {
	case k < 3:
		v := r.Intn(200001) - 100000
		return strconv.Itoa(v), float64(v)
	case k < 5:
		// up to 6 decimals, exactly representable text -> nearest double
		v := float64(r.Intn(2000001)-1000000) / 1000.0
		s := strconv.FormatFloat(v, 'f', -1, 64)
		return s, v
	case k < 8:
		v := math.Float64frombits(r.Uint64())
		for math.IsNaN(v) || math.IsInf(v, 0) {
			v = math.Float64frombits(r.Uint64())
		}
		return strconv.FormatFloat(v, 'g', -1, 64), v
	default:
		for {
			f := exoticNums[r.Intn(len(exoticNums))]
			if o.FiniteOnly && math.IsInf(f.v, 0) {
				continue
			}
			// ParseFloat reports a range error for overflowing literals; those are not "parsable".
			if f.s == "1e400" || f.s == "-1e400" {
				continue
			}
			return f.s, f.v
		}
	}
}

var exoticRates = []numForm{{"1", 1}, {"1.0", 1}, {"0.5", 0.5}, {".25", 0.25}, {"1e-1", 0.1}, {"0.001", 0.001}, {"0x1p-3", 0.125}, {"+0.5", 0.5}, {"5e-324", 5e-324}, {"0.999999", 0.999999}}

// Rate returns a textual sample rate in (0,1] and its value.
func Rate(r *rand.Rand, o LineOpts) (string, float64) {
	if o.DyadicRates {
		k := r.Intn(4)
		v := 1.0 / float64(int(1)<<uint(k))
		return strconv.FormatFloat(v, 'f', -1, 64), v
	}
	if r.Intn(3) == 0 {
		f := exoticRates[r.Intn(len(exoticRates))]
		return f.s, f.v
	}
	v := float64(1+r.Intn(1000)) / 1000.0
	return strconv.FormatFloat(v, 'f', -1, 64), v
}

// Token returns a non-empty string free of the bytes in forbid (and of NUL and newline), used for tags,
// set members and event attribute values.
func Token(r *rand.Rand, o LineOpts, forbid string, maxLen int) string {
	n := 1 + r.Intn(maxLen)
	var b strings.Builder
	for i := 0; i < n; i++ {
		var c string
		k := r.Intn(100)
		switch {
		case o.Plain || k < 75:
			c = string(pick(r, plainTagChars))
		case k < 90:
			c = string(rune(0x20 + r.Intn(0x5f))) // printable ASCII
		case k < 96 || o.UTF8Only:
			c = []string{"é", "日本", "𝛑", "ß", "→"}[r.Intn(5)]
		default:
			c = string([]byte{byte(1 + r.Intn(255))}) // arbitrary byte, possibly invalid UTF-8
		}
		if strings.ContainsAny(c, forbid) || strings.ContainsAny(c, "\x00\n") {
			i--
			continue
		}
		b.WriteString(c)
	}
	return b.String()
}

// Tag returns one tag ("key:value" or "bare").
func Tag(r *rand.Rand, o LineOpts) string {
	if r.Intn(4) == 0 {
		return Token(r, o, ",|", 8)
	}
	return Token(r, o, ",|:", 6) + ":" + Token(r, o, ",|", 8)
}

func (o LineOpts) types() []int {
	if len(o.Types) > 0 {
		return o.Types
	}
	return []int{Counter, Timer, Gauge, Set}
}

// Metric generates one metric line derivation.
func Metric(r *rand.Rand, o LineOpts) MetricLine {
	var m MetricLine
	raw, want := Name(r, o.Plain)
	m.Name = want
	var sb strings.Builder
	sb.WriteString(raw)
	sb.WriteByte(':')
	ts := o.types()
	m.Type = ts[r.Intn(len(ts))]
	shape := []string{}
	typ := ""
	switch m.Type {
	case Counter:
		typ = "c"
	case Gauge:
		typ = "g"
	case Timer:
		typ = "ms"
		if r.Intn(3) == 0 {
			typ = "h"
		}
	case Set:
		typ = "s"
	}
	if m.Type == Set {
		if !o.Plain && r.Intn(25) == 0 {
			m.StrValue = ""
		} else {
			m.StrValue = Token(r, o, "|", 10)
		}
		sb.WriteString(m.StrValue)
	} else {
		s, v := Number(r, o)
		m.Value = v
		sb.WriteString(s)
	}
	sb.WriteByte('|')
	sb.WriteString(typ)
	shape = append(shape, typ)
	m.Rate = 1
	// attribute sections in random order; rate and tags may repeat (last rate wins, tags concatenate)
	nsec := 0
	switch k := r.Intn(10); {
	case k < 3:
		nsec = 0
	case k < 6:
		nsec = 1
	case k < 9:
		nsec = 2
	default:
		nsec = 3 + r.Intn(3)
	}
	usedRate, usedTags := false, false
	for i := 0; i < nsec; i++ {
		k := r.Intn(10)
		// The documented form has at most one rate and one tag section; unknown sections may repeat.
		if k < 4 && usedRate {
			k = 4
		}
		if k >= 4 && k < 8 && usedTags {
			if o.NoUnknownFields {
				continue
			}
			k = 9
		}
		sb.WriteByte('|')
		switch {
		case k < 4:
			usedRate = true
			s, v := Rate(r, o)
			sb.WriteByte('@')
			sb.WriteString(s)
			m.Rate = v
			shape = append(shape, "@")
		case k < 8 || (o.NoUnknownFields && !usedTags):
			usedTags = true
			sb.WriteByte('#')
			nt := 1 + r.Intn(4)
			for j := 0; j < nt; j++ {
				if j > 0 {
					sb.WriteByte(',')
				}
				if !o.Plain && r.Intn(30) == 0 {
					continue // an empty tag, which the parser drops
				}
				t := Tag(r, o)
				m.Tags = append(m.Tags, t)
				sb.WriteString(t)
			}
			shape = append(shape, "#")
		default:
			// unknown field: first byte is neither '@' nor '#'
			sb.WriteString([]string{"c:", "T", "e:", "x"}[r.Intn(4)])
			sb.WriteString(Token(r, o, "|", 8))
			shape = append(shape, "x")
		}
	}
	m.Line = sb.String()
	m.Shape = strings.Join(shape, "")
	if raw != want {
		m.Shape += "~"
	}
	return m
}

// Event generates one event line derivation.
func Event(r *rand.Rand, o LineOpts) EventLine {
	var e EventLine
	tok := func(forbid string, max int) string {
		if r.Intn(8) == 0 {
			return ""
		}
		return Token(r, o, forbid, max)
	}
	// Title and text are length delimited: they may contain '|' and ':'. The declared text length counts the
	// escaped form.
	e.Title = tok("", 12)
	rawText := ""
	nparts := r.Intn(4)
	for i := 0; i <= nparts; i++ {
		if i > 0 {
			rawText += "\\n"
			e.Text += "\n"
		}
		// A part must not end in a backslash, nor may one follow it with 'n', or the escape pairing shifts.
		p := strings.ReplaceAll(tok("\\", 10), "\\", "")
		rawText += p
		e.Text += p
	}
	var sb strings.Builder
	fmt.Fprintf(&sb, "_e{%d,%d}:%s|%s", len(e.Title), len(rawText), e.Title, rawText)
	shape := []string{}
	nattr := r.Intn(5)
	if r.Intn(10) == 0 {
		nattr = 5 + r.Intn(6)
	}
	used := map[int]bool{}
	for i := 0; i < nattr; i++ {
		k := r.Intn(8)
		if k < 7 && used[k] {
			// each documented attribute appears at most once; unknown ones may repeat
			if o.NoUnknownFields {
				continue
			}
			k = 7
		}
		used[k] = true
		if k == 7 && o.NoUnknownFields {
			continue
		}
		sb.WriteByte('|')
		switch k {
		case 0:
			d := r.Int63()
			if r.Intn(3) == 0 {
				d = int64(r.Intn(2000000000))
			}
			if d == 0 {
				d = 1 // 0 means "absent" downstream
			}
			fmt.Fprintf(&sb, "d:%d", d)
			e.DateHappened = d
			shape = append(shape, "d")
		case 1:
			e.Hostname = tok("|", 10)
			sb.WriteString("h:" + e.Hostname)
			shape = append(shape, "h")
		case 2:
			e.AggregationKey = tok("|", 10)
			sb.WriteString("k:" + e.AggregationKey)
			shape = append(shape, "k")
		case 3:
			if r.Intn(2) == 0 {
				sb.WriteString("p:low")
				e.Priority = 1
			} else {
				sb.WriteString("p:normal")
				e.Priority = 0
			}
			shape = append(shape, "p")
		case 4:
			e.SourceTypeName = tok("|", 10)
			sb.WriteString("s:" + e.SourceTypeName)
			shape = append(shape, "s")
		case 5:
			k := r.Intn(4)
			sb.WriteString("t:" + []string{"info", "warning", "error", "success"}[k])
			e.AlertType = k
			shape = append(shape, "t")
		case 6:
			sb.WriteByte('#')
			nt := 1 + r.Intn(4)
			for j := 0; j < nt; j++ {
				if j > 0 {
					sb.WriteByte(',')
				}
				t := Tag(r, o)
				e.Tags = append(e.Tags, t)
				sb.WriteString(t)
			}
			shape = append(shape, "#")
		default:
			sb.WriteString([]string{"c:", "x:", "zz", "e"}[r.Intn(4)] + Token(r, o, "|", 6))
			shape = append(shape, "x")
		}
	}
	e.Line = sb.String()
	e.Shape = "e" + strings.Join(shape, "")
	return e
}

// Reject is the independent recogniser for the five "must be rejected" clauses of the documented
// grammar, for lines that do not start with '_' and contain neither NUL nor newline. It returns the
// reason, or "" when none of the clauses applies (which does not mean the line must be accepted).
func Reject(line []byte) string {
	if len(line) == 0 || line[0] == '_' {
		return ""
	}
	s := string(line)
	colon := strings.IndexByte(s, ':')
	if colon < 0 {
		return "no-name-separator"
	}
	rest := s[colon+1:]
	bar := strings.IndexByte(rest, '|')
	if bar < 0 {
		return "no-value-separator"
	}
	value := rest[:bar]
	sections := strings.Split(rest[bar+1:], "|")
	typ := sections[0]
	switch typ {
	case "c", "g", "ms", "h", "s":
	default:
		return "unknown-type"
	}
	if typ != "s" {
		v, err := strconv.ParseFloat(value, 64)
		if err != nil || math.IsNaN(v) {
			return "unparsable-value"
		}
	}
	// Attribute sections. An empty section swallows the one after it (the parser reads the byte after
	// the separator as the section's kind), so track that.
	secs := sections[1:]
	for i := 0; i < len(secs); i++ {
		sec := secs[i]
		if sec == "" {
			i++ // the following section is consumed as the body of an unknown field
			continue
		}
		if sec[0] == '@' {
			v, err := strconv.ParseFloat(sec[1:], 64)
			if err != nil {
				return "unparsable-rate"
			}
			if !(v > 0) || math.IsInf(v, 0) {
				return "non-positive-or-non-finite-rate"
			}
		}
	}
	return ""
}
