package gen

import "math/rand"

var lineAlphabet = []byte("abcxyzABC019.-_/ \t:|@#,{}e_+-eEnNiIfFaA0x\\\"'!;=<>()[]~`$%^&*?")

// RandomLine returns a structure-aware random byte string: mostly bytes that matter to the grammar,
// sometimes arbitrary bytes. It never contains a newline; NUL only when allowNUL is set.
func RandomLine(r *rand.Rand, allowNUL bool) []byte {
	n := r.Intn(40)
	if r.Intn(50) == 0 {
		n = 200 + r.Intn(2000)
	}
	out := make([]byte, 0, n)
	prefixes := []string{"", "", "", "x:", "x:1|", "x:1|c|", "x:1|ms|@", "x:1|g|#", "_e{", "_e{1,1}:", "_e{1,1}:a|b|", "a.b:3.5|"}
	out = append(out, prefixes[r.Intn(len(prefixes))]...)
	for i := 0; i < n; i++ {
		var b byte
		if r.Intn(10) == 0 {
			b = byte(r.Intn(256))
		} else {
			b = lineAlphabet[r.Intn(len(lineAlphabet))]
		}
		if b == '\n' || (b == 0 && !allowNUL) {
			b = '1'
		}
		out = append(out, b)
	}
	return out
}
