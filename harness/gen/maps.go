package gen

import (
	"math"
	"math/rand"
	"strconv"
	"sync/atomic"

	"github.com/atlassian/gostatsd"

	"verif/ref"
)

// MapOpts tunes the datapoint / map generator. The key space is deliberately small so that series
// collide across maps.
type MapOpts struct {
	Names      int   // size of the name pool (default 4)
	TagPool    int   // size of the tag pool (default 5)
	MaxTags    int   // max tags per datapoint (default 3)
	Sources    int   // size of the source pool, "" included (default 3)
	Types      []int // nil = all four
	Exact      bool  // small integer values, dyadic rates
	NonFinite  bool  // allow ±Inf / NaN gauge and timer values
	TimeBase   int64 // timestamps are TimeBase + [0, TimeSpread)
	TimeSpread int64 // default 5
	IDBase     int64 // when non-zero, timer values and set members are unique ids IDBase+counter
	EmptyNames bool  // allow the empty name / tag
}

var idCounter int64

func (o MapOpts) def() MapOpts {
	if o.Names == 0 {
		o.Names = 4
	}
	if o.TagPool == 0 {
		o.TagPool = 5
	}
	if o.MaxTags == 0 {
		o.MaxTags = 3
	}
	if o.Sources == 0 {
		o.Sources = 3
	}
	if o.TimeSpread == 0 {
		o.TimeSpread = 5
	}
	return o
}

var tagPool = []string{"env:prod", "env:dev", "region:us", "bare", "k:v:w", "host:h1", "a:1", "a:2", "é:ü", "x/y:z-1"}
var srcPool = []string{"", "10.0.0.1", "10.0.0.2", "i-abc", "ns/pod"}

// Datapoint draws one datapoint.
func Datapoint(r *rand.Rand, o MapOpts) ref.Datapoint {
	o = o.def()
	var d ref.Datapoint
	types := o.Types
	if len(types) == 0 {
		types = []int{Counter, Timer, Gauge, Set}
	}
	d.Type = types[r.Intn(len(types))]
	d.Name = "m" + strconv.Itoa(r.Intn(o.Names))
	if o.EmptyNames && r.Intn(10) == 0 {
		d.Name = ""
	}
	nt := r.Intn(o.MaxTags + 1)
	for i := 0; i < nt; i++ {
		t := tagPool[r.Intn(min(o.TagPool, len(tagPool)))]
		if o.EmptyNames && r.Intn(15) == 0 {
			t = ""
		}
		d.Tags = append(d.Tags, t)
	}
	d.Source = srcPool[r.Intn(min(o.Sources, len(srcPool)))]
	d.Timestamp = o.TimeBase + r.Int63n(o.TimeSpread)
	d.Rate = 1
	if o.Exact {
		d.Rate = 1 / float64(int(1)<<uint(r.Intn(4)))
		d.Value = float64(r.Intn(201) - 100)
	} else {
		if r.Intn(3) == 0 {
			d.Rate = float64(1+r.Intn(100)) / 100
		}
		switch r.Intn(6) {
		case 0:
			d.Value = float64(r.Intn(2001) - 1000)
		case 1:
			d.Value = r.NormFloat64() * 1e6
		case 2:
			d.Value = 0
		default:
			d.Value = float64(r.Intn(2000001)-1000000) / 1000
		}
		if o.NonFinite && (d.Type == Gauge || d.Type == Timer) && r.Intn(12) == 0 {
			d.Value = []float64{math.Inf(1), math.Inf(-1), math.NaN(), math.MaxFloat64, -math.MaxFloat64, math.SmallestNonzeroFloat64}[r.Intn(6)]
		}
	}
	switch d.Type {
	case Set:
		d.Str = "member" + strconv.Itoa(r.Intn(6))
		if o.IDBase != 0 {
			d.Str = "id" + strconv.FormatInt(o.IDBase+atomic.AddInt64(&idCounter, 1), 10)
		}
		d.Value = 0
		d.Rate = 1
	case Timer:
		if o.IDBase != 0 {
			d.Value = float64(o.IDBase + atomic.AddInt64(&idCounter, 1))
		}
	case Gauge:
		d.Rate = 1
	}
	return d
}

// Datapoints draws n datapoints.
func Datapoints(r *rand.Rand, o MapOpts, n int) []ref.Datapoint {
	out := make([]ref.Datapoint, n)
	for i := range out {
		out[i] = Datapoint(r, o)
	}
	return out
}

// MapOf feeds the datapoints through the real MetricMap.Receive, in order.
func MapOf(dps []ref.Datapoint) *gostatsd.MetricMap {
	mm := gostatsd.NewMetricMap(false)
	for _, d := range dps {
		mm.Receive(d.Metric())
	}
	return mm
}

func min(a, b int) int {
	if a < b {
		return a
	}
	return b
}
