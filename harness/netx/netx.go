// Package netx hands out loopback addresses for servers that bind by themselves (the real statsd.Server's
// HTTP ingestion, the lambda-extension executable, a backend's own dialer target that is closed and
// re-opened). The usual "listen on :0, close, let the server bind that port" leaves a window in which another
// process — another shard of the same check, another check running at the same time — can be given the same
// port, and a harness client then talks to somebody else's server. All of 127.0.0.0/8 is loopback on Linux, so
// every harness process uses an address of its own, derived from its process id: two live processes never
// share one, whatever ports they pick. Child processes started by a check bind the addresses the check chose.
package netx

import (
	"fmt"
	"net"
	"os"
)

// IP is this process's own loopback address (never 127.0.0.1).
func IP() string {
	pid := os.Getpid()
	return fmt.Sprintf("127.%d.%d.%d", 64+(pid>>16)&63, (pid>>8)&255, pid&255)
}

// FreeTCP returns "ip:port" of a TCP port that was free on this process's address a moment ago.
func FreeTCP() string {
	l, err := net.Listen("tcp", IP()+":0")
	if err != nil {
		return IP() + ":0"
	}
	defer l.Close()
	return l.Addr().String()
}

// FreeUDP returns "ip:port" of a UDP port that was free on this process's address a moment ago.
func FreeUDP() string {
	c, err := net.ListenPacket("udp", IP()+":0")
	if err != nil {
		return IP() + ":0"
	}
	defer c.Close()
	return c.LocalAddr().String()
}
