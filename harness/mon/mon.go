// Package mon is the shared runtime-monitoring runtime of the verification harness: it gives
// every check its PRNG streams, case accounting, write-ahead case log, violation collection and
// result file. One Run per check process; all methods are safe for concurrent use.
package mon

import (
	"encoding/json"
	"fmt"
	"hash/fnv"
	"math/rand"
	"os"
	"path/filepath"
	"runtime/debug"
	"sort"
	"strconv"
	"strings"
	"sync"
	"sync/atomic"
	"testing"
	"time"
)

// Violation is one refutation of the property, with enough data to replay it.
type Violation struct {
	// Sig identifies the class of the failure (matched against KNOWN_FINDINGS.txt by the driver).
	Sig string `json:"sig"`
	// Detail is a human readable description of what was observed versus expected.
	Detail string `json:"detail"`
	// Replay is the witness: input, history, script, seed...
	Replay interface{} `json:"replay,omitempty"`
	// Count is how many times a violation with this Sig was seen.
	Count int `json:"count"`
}

// Result is what a check process leaves behind for the driver.
type Result struct {
	Property     string                 `json:"property"`
	Seed         int64                  `json:"seed"`
	Tier         string                 `json:"tier"`
	Shard        int                    `json:"shard"`
	Shards       int                    `json:"shards"`
	Evaluations  int64                  `json:"evaluations"`
	Classes      []string               `json:"classes"` // distinct non-trivial class keys (hashed)
	Rule         string                 `json:"rule"`
	Samples      []interface{}          `json:"samples"`
	Events       map[string]int64       `json:"events"`
	Violations   []*Violation           `json:"violations"`
	Inconclusive map[string]int64       `json:"inconclusive"`
	Extra        map[string]interface{} `json:"extra,omitempty"`
	Assumptions  []string               `json:"assumptions,omitempty"`
	WallS        float64                `json:"wall_s"`
	Finished     bool                   `json:"finished"`
}

// Run is the per-process monitor state.
type Run struct {
	t     testing.TB
	start time.Time

	mu      sync.Mutex
	res     Result
	classes map[string]struct{}
	viol    map[string]*Violation
	wal     *os.File
	outDir  string
	replay  json.RawMessage

	evals atomic.Int64
	stamp atomic.Int64
}

const maxSamples = 6
const maxViolationClasses = 40

func envInt(name string, def int64) int64 {
	if v := os.Getenv(name); v != "" {
		if n, err := strconv.ParseInt(v, 10, 64); err == nil {
			return n
		}
	}
	return def
}

// Start creates the Run for a property. It reads VERIF_SEED, VERIF_TIER, VERIF_SHARD ("i/n"),
// VERIF_OUT (directory for result and write-ahead log) and VERIF_REPLAY (path of a replay file).
func Start(t testing.TB, property string) *Run {
	r := &Run{t: t, start: time.Now(), classes: map[string]struct{}{}, viol: map[string]*Violation{}}
	r.res.Property = property
	r.res.Seed = envInt("VERIF_SEED", 1)
	r.res.Tier = os.Getenv("VERIF_TIER")
	if r.res.Tier != "thorough" {
		r.res.Tier = "quick"
	}
	r.res.Shards = 1
	if s := os.Getenv("VERIF_SHARD"); s != "" {
		parts := strings.SplitN(s, "/", 2)
		if len(parts) == 2 {
			i, _ := strconv.Atoi(parts[0])
			n, _ := strconv.Atoi(parts[1])
			if n > 0 && i >= 0 && i < n {
				r.res.Shard, r.res.Shards = i, n
			}
		}
	}
	r.res.Events = map[string]int64{}
	r.res.Inconclusive = map[string]int64{}
	r.res.Extra = map[string]interface{}{}
	r.outDir = os.Getenv("VERIF_OUT")
	if r.outDir == "" {
		r.outDir = t.TempDir()
	}
	_ = os.MkdirAll(r.outDir, 0o755)
	wal, err := os.OpenFile(filepath.Join(r.outDir, fmt.Sprintf("wal.%d.log", r.res.Shard)), os.O_CREATE|os.O_WRONLY|os.O_TRUNC, 0o644)
	if err == nil {
		r.wal = wal
	}
	if p := os.Getenv("VERIF_REPLAY"); p != "" {
		if b, err := os.ReadFile(p); err == nil {
			var f struct {
				Replay json.RawMessage `json:"replay"`
			}
			if json.Unmarshal(b, &f) == nil {
				r.replay = f.Replay
			}
		}
	}
	return r
}

// Seed returns VERIF_SEED.
func (r *Run) Seed() int64 { return r.res.Seed }

// Thorough reports whether the thorough tier was requested.
func (r *Run) Thorough() bool { return r.res.Tier == "thorough" }

// Shard returns (index, count) of this process among the parallel children of the check.
func (r *Run) Shard() (int, int) { return r.res.Shard, r.res.Shards }

// N picks a case count by tier and divides it among the shards (rounding up).
func (r *Run) N(quick, thorough int) int {
	n := quick
	if r.Thorough() {
		n = thorough
	}
	return (n + r.res.Shards - 1) / r.res.Shards
}

// Pick returns quick or thorough by tier, not divided by shards.
func (r *Run) Pick(quick, thorough int) int {
	if r.Thorough() {
		return thorough
	}
	return quick
}

// ReplayPayload returns the "replay" member of the file named by VERIF_REPLAY, or nil.
func (r *Run) ReplayPayload() json.RawMessage { return r.replay }

// Rand returns a PRNG for the named stream, a function of (seed, shard, stream) only. Every
// goroutine must use its own stream.
func (r *Run) Rand(stream string) *rand.Rand {
	h := fnv.New64a()
	fmt.Fprintf(h, "%d/%d/%s", r.res.Seed, r.res.Shard, stream)
	return rand.New(rand.NewSource(int64(h.Sum64())))
}

// RandGlobal is like Rand but does not depend on the shard (for case lists that all shards enumerate
// identically and then partition by index).
func (r *Run) RandGlobal(stream string) *rand.Rand {
	h := fnv.New64a()
	fmt.Fprintf(h, "%d/%s", r.res.Seed, stream)
	return rand.New(rand.NewSource(int64(h.Sum64())))
}

// Mine reports whether case index i belongs to this shard.
func (r *Run) Mine(i int) bool { return i%r.res.Shards == r.res.Shard }

// Stamp returns the next value of the process-wide logical clock.
func (r *Run) Stamp() int64 { return r.stamp.Add(1) }

// Case appends a line to the write-ahead case log before a case is executed, so that a crash of the
// process leaves the offending case on disk.
func (r *Run) Case(format string, args ...interface{}) {
	if r.wal == nil {
		return
	}
	line := fmt.Sprintf(format, args...)
	if len(line) > 1<<16 {
		line = line[:1<<16]
	}
	r.mu.Lock()
	_, _ = r.wal.WriteString(strconv.Quote(line) + "\n")
	r.mu.Unlock()
}

// Eval counts n evaluated cases.
func (r *Run) Eval(n int) { r.evals.Add(int64(n)) }

// Nontrivial records that a case of the given non-trivial class was evaluated.
func (r *Run) Nontrivial(class string) {
	r.mu.Lock()
	if len(r.classes) < 200000 {
		r.classes[class] = struct{}{}
	}
	r.mu.Unlock()
}

// Event counts n observed events of a kind.
func (r *Run) Event(kind string, n int) {
	r.mu.Lock()
	r.res.Events[kind] += int64(n)
	r.mu.Unlock()
}

// Sample keeps up to a handful of actual cases for the evidence file.
func (r *Run) Sample(v interface{}) {
	r.mu.Lock()
	if len(r.res.Samples) < maxSamples {
		r.res.Samples = append(r.res.Samples, v)
	}
	r.mu.Unlock()
}

// WantSample reports whether more samples are wanted (to avoid building them needlessly).
func (r *Run) WantSample() bool {
	r.mu.Lock()
	defer r.mu.Unlock()
	return len(r.res.Samples) < maxSamples
}

// Rule sets the description of how cases are generated and what makes one non-trivial.
func (r *Run) Rule(s string) {
	r.mu.Lock()
	r.res.Rule = s
	r.mu.Unlock()
}

// Assume records an assumption / trusted base entry for the evidence.
func (r *Run) Assume(s string) {
	r.mu.Lock()
	r.res.Assumptions = append(r.res.Assumptions, s)
	r.mu.Unlock()
}

// Extra stores an additional measured value in the evidence.
func (r *Run) Extra(key string, v interface{}) {
	r.mu.Lock()
	r.res.Extra[key] = v
	r.mu.Unlock()
}

// Violation records a refutation of the property.
func (r *Run) Violation(sig, detail string, replay interface{}) {
	if len(detail) > 8000 {
		detail = detail[:8000] + "…"
	}
	r.mu.Lock()
	defer r.mu.Unlock()
	if v, ok := r.viol[sig]; ok {
		v.Count++
		return
	}
	if len(r.viol) >= maxViolationClasses {
		return
	}
	v := &Violation{Sig: sig, Detail: detail, Replay: replay, Count: 1}
	r.viol[sig] = v
	r.res.Violations = append(r.res.Violations, v)
	r.t.Logf("VIOLATION-CANDIDATE sig=%s %s", sig, detail)
}

// Violations returns the number of distinct violation classes so far.
func (r *Run) Violations() int {
	r.mu.Lock()
	defer r.mu.Unlock()
	return len(r.viol)
}

// Inconclusive counts a case whose verdict could not be decided (watchdog, too narrow a time bracket...).
func (r *Run) Inconclusive(reason string) {
	r.mu.Lock()
	r.res.Inconclusive[reason]++
	r.mu.Unlock()
}

// Guard runs f and converts a panic on the calling goroutine into a violation. It returns true if
// f panicked.
func (r *Run) Guard(sigPrefix string, replay interface{}, f func()) (panicked bool) {
	defer func() {
		if p := recover(); p != nil {
			panicked = true
			stack := string(debug.Stack())
			r.Violation(sigPrefix+":"+PanicSite(stack), fmt.Sprintf("panic: %v\n%s", p, trim(stack, 3000)), replay)
		}
	}()
	f()
	return false
}

// PanicSite extracts the first gostatsd (non-harness) function from a stack trace.
func PanicSite(stack string) string {
	lines := strings.Split(stack, "\n")
	seenPanic := false
	for _, l := range lines {
		if strings.HasPrefix(l, "panic(") {
			seenPanic = true
			continue
		}
		if !seenPanic {
			continue
		}
		if strings.HasPrefix(l, "github.com/atlassian/gostatsd") {
			if i := strings.LastIndex(l, "("); i > 0 {
				l = l[:i]
			}
			return strings.TrimPrefix(l, "github.com/atlassian/gostatsd")
		}
	}
	return "unknown"
}

func trim(s string, n int) string {
	if len(s) > n {
		return s[:n] + "…"
	}
	return s
}

// Finish writes the result file. Call it once at the end of the check (typically deferred).
func (r *Run) Finish() {
	r.mu.Lock()
	defer r.mu.Unlock()
	r.res.Evaluations = r.evals.Load()
	r.res.Classes = r.res.Classes[:0]
	for c := range r.classes {
		h := fnv.New64a()
		h.Write([]byte(c))
		r.res.Classes = append(r.res.Classes, strconv.FormatUint(h.Sum64(), 36))
	}
	sort.Strings(r.res.Classes)
	r.res.WallS = time.Since(r.start).Seconds()
	r.res.Finished = true
	b, err := json.Marshal(&r.res)
	if err != nil {
		// Replay payloads are caller supplied; fall back to stringified ones.
		for _, v := range r.res.Violations {
			v.Replay = fmt.Sprintf("%+v", v.Replay)
		}
		for i := range r.res.Samples {
			r.res.Samples[i] = fmt.Sprintf("%+v", r.res.Samples[i])
		}
		b, err = json.Marshal(&r.res)
	}
	if err != nil {
		r.t.Fatalf("cannot marshal result: %v", err)
	}
	name := filepath.Join(r.outDir, fmt.Sprintf("result.%d.json", r.res.Shard))
	if err := os.WriteFile(name, b, 0o644); err != nil {
		r.t.Fatalf("cannot write result: %v", err)
	}
	if r.wal != nil {
		_ = r.wal.Close()
	}
	r.t.Logf("%s seed=%d tier=%s shard=%d/%d evaluations=%d classes=%d violations=%d inconclusive=%v events=%v",
		r.res.Property, r.res.Seed, r.res.Tier, r.res.Shard, r.res.Shards, r.res.Evaluations, len(r.res.Classes), len(r.res.Violations), r.res.Inconclusive, r.res.Events)
}

// WaitUntil polls cond (cheaply, yielding) until it is true or the generous watchdog d expires.
// It returns false when the watchdog fired. The verdict for that is up to the caller.
func WaitUntil(d time.Duration, cond func() bool) bool {
	deadline := time.Now().Add(d)
	for i := 0; ; i++ {
		if cond() {
			return true
		}
		if time.Now().After(deadline) {
			return cond()
		}
		if i < 200 {
			time.Sleep(50 * time.Microsecond)
		} else {
			time.Sleep(time.Millisecond)
		}
	}
}

// ReplayCase decodes the "case" member of a replay payload into dst and returns dst (nil on failure).
func ReplayCase(payload []byte, dst interface{}) interface{} {
	var f struct {
		Case json.RawMessage `json:"case"`
	}
	if json.Unmarshal(payload, &f) != nil || len(f.Case) == 0 {
		return nil
	}
	if json.Unmarshal(f.Case, dst) != nil {
		return nil
	}
	return dst
}
